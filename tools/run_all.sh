#!/bin/bash
# usage: run_all.sh <tier> : runs every registered check once, logs to /tmp/runall_<tier>/
T=${1:-quick}; D=/tmp/runall_$T; mkdir -p $D
for p in C01 C02 C03 C04 C05 C06 C07 C08 C09 C10 C11 C12 C13 C14 C15 C16 C17 C18 C19; do
  s=$(date +%s); timeout 7200 /verif/bin/vcheck run $p --tier $T > $D/$p.log 2>&1; rc=$?; e=$(date +%s)
  echo "$p exit=$rc secs=$((e-s)) $(grep -c '^KNOWN-FINDING' $D/$p.log) known $(grep -c '^PROBLEM' $D/$p.log) problems" | tee -a $D/summary.txt
done
