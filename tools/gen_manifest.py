#!/usr/bin/env python3
"""Regenerates /verif/MANIFEST.json from the table below (claimed checks) and properties.jsonl."""
import json, subprocess

TECH = "bounded symbolic execution of the real Go SSA with an SMT solver (z3) deciding every path condition and assertion"
TRUST = ("Trusted: z3's answers; the engine's SSA semantics and stubs, validated on every run by replaying solver witnesses "
         "against the native build (observations must match) and by replaying every counterexample before it is reported. ")

CLAIMS = {
 "C01": dict(text="Symbolic model checking of the real column/commit code. Step harness: K put/merge/delete operations at ARBITRARY offsets of a block with arbitrary values through the real two-level Apply, every touched row and an arbitrary untouched row compared bit-for-bit with a model (also from a 'deleted value left behind' pre-state). History harness: every path of T transactions x M operations (insert/put/merge/delete, offset reuse, one or two blocks) with symbolic values through the public API, full dump versus model after each commit.",
             note="Bounds: step K<=2|3 ops per block, history T=2,M=2 | more kinds and M in thorough, strings of length<=1, row offsets from fixed candidate sets (boundaries 63/64, 16383/16384, block 2); 64KB strings, NaN payload of merged floats, record columns and symbolic row offsets at collection level are outside the claim. Pool reuse is modelled as one P without GC.",
             ref="DESIGN.md §4 C01"),
 "C05": dict(text="Symbolic model checking of the real commit package: K operations of any kind at fully symbolic 32-bit offsets with symbolic values read back identically (Seek/Next, Rewind, Range of an arbitrary block); every typed Put/accessor pair; Buffer and Commit WriteTo/ReadFrom (interleaved blocks, every varint length of id/block); merge-to-put rewriting seen by later sequential and block-wise readers, also on decoded commits.",
             note="Bounds: K<=2 (quick) / K<=3 (thorough), variable-size values of length<=2 (<=1 in codec/swap harnesses); Log.Append/Range (s2 framing) is checked under C13; payloads up to 64KB are outside the claim. Two genuine defects are partitioned off as known findings (KF-merge-reorder, KF-decoded-swap-seek); everything outside those regions is proved.",
             ref="DESIGN.md §4 C05"),
 "C06": dict(text="Symbolic model checking (sequential part): every path of histories of committed / rolled-back / read-only transactions over one and two blocks with symbolic values; every emitted commit is replayed on a replica (in lock step, and as a lagging backlog through commit.Channel) and the replica's full dump must equal the model and the primary; offset reuse with stale data in the witness column included.",
             note="Bounds: T<=2|3 transactions, M<=2 ops, 2-4 pre-existing rows; interleavings of concurrent writers are covered only as far as the concurrent harnesses of C09/C15 go (see their notes); serialized-log transport is covered by C05 (codec) + C13.",
             ref="DESIGN.md §4 C06"),
 "C11": dict(text="Symbolic model checking. Allocator step: next()/free() from an ARBITRARY fill list (W fully symbolic 64-bit words after a prefix of full words, count = population): the offset returned was free, exactly that bit is set, Count follows, two reservations never collide, free restores the list. Histories: insert/delete/insert with offset reuse in a dense prefix of block 0 and in block 1 (block 0 full), a witness column holding a value in every pre-existing row, so that any data left behind by a previous occupant is visible. Failed inserts: an insert whose callback fails inside a transaction that also commits (or rolls back) other inserts - Count, liveness and the next reservation are checked. Offset reuse by a row that does not store an indexed column: the new occupant does not inherit the previous occupant's index membership (instance shared with C03).",
             note="Bounds: W=1 (quick) / W=2 (thorough) symbolic words; histories T=3,M<=2. Concurrent inserts are covered by the C18/C02 thread harnesses only. Known-finding regions of C02 (in-flight inserts, rollback) are not re-asserted here.",
             ref="DESIGN.md §4 C11"),
 "C12": dict(text="Symbolic model checking: every path of histories of InsertKey/UpsertKey/QueryKey/DeleteKey/SetKey over an alphabet of 2-3 keys (repeats forced) against a map model evaluated on committed state: every return value, every lookup (Row.Key and the value behind the key, symbolic), one live row per key, Count; several key operations per transaction, rollbacks, keyed rows in block 1 (block 0 full), histories that start from freed offsets still holding stale keys (four concrete pre-histories, symbolic choice), and re-keying from inside QueryKey and UpsertKey callbacks.",
             note="Bounds: T<=3 transactions, M<=2 ops per transaction, alphabet 2|3. Known findings partitioned off: KF-key-check-then-act (same absent key twice in one transaction), KF-rollback-insert. Racing upserts are only covered as far as the thread harness of C18 goes.",
             ref="DESIGN.md §4 C12"),
 "C15": dict(text="Symbolic model checking (sequential part): every path of histories of committed, rolled-back and read-only transactions over one and two blocks; after each transaction the commits that reached the logger (a user logger and commit.Channel) are exactly one per changed block, with non-zero, globally distinct, per-block increasing IDs.",
             note="Bounds: T<=2|3, M<=2, 2-4 pre-existing rows. Interleavings of concurrent writers: see C09 harness note. commit.Next() is modelled as a counter starting at a fixed value (wrap-around and restarts outside the claim).",
             ref="DESIGN.md §4 C15"),
}

def main():
    props = [json.loads(l) for l in open('/verif/properties.jsonl')]
    try:
        extra = json.load(open('/verif/tools/manifest_extra.json'))
    except Exception:
        extra = {}
    CLAIMS.update(extra.get("claims", {}))
    na_reasons = extra.get("not_applicable", {})
    checks = []
    for p in props:
        pid = p['id']
        if pid not in CLAIMS:
            continue
        c = CLAIMS[pid]
        checks.append({
            "property_id": pid,
            "quick_cmd": f"./bin/vcheck run {pid} --tier quick",
            "thorough_cmd": f"./bin/vcheck run {pid} --tier thorough",
            "evidence_file": f"/verif/evidence/{pid}.json",
            "replay_cmd_template": "./bin/vcheck replay {path}",
            "engine": "gosym",
            "level_claimed": {"category": "model_checking", "text": c['text'], "design_ref": c['ref']},
            "level_note": TRUST + c['note'],
            "technique": c.get('technique', TECH),
        })
    hooks_commits = extra.get("hook_commits", [])
    m = {
        "version": 1,
        "setup_cmd": "cd /verif/engine && GOFLAGS=-mod=mod GOPROXY=off GOSUMDB=off GOTOOLCHAIN=local go build -o /verif/bin/vcheck ./cmd/vcheck",
        "hooks": {"guard": "verif",
                  "enable": "checks load and build /repo with -tags verif; harnesses, the vnd API and replay tests are injected with -overlay from /verif/harness (nothing but the tag-guarded yield hooks lives in /repo)",
                  "baseline_off_cmd": "cd /repo && go test -mod=mod -vet=off -count=1 -timeout 25m ./...",
                  "source_commits": hooks_commits, "add_only": True},
        "engines": [{"name": "gosym", "path": "/verif/engine", "serves_properties": sorted(CLAIMS),
                     "kind_free_text": "bounded symbolic executor for Go SSA (golang.org/x/tools/go/ssa v0.29.0) emitting SMT-LIB2 for z3: path-based with re-execution, one incremental solver per worker, one-shot fallback, native replay of witnesses and counterexamples"}],
        "checks": checks,
        "not_applicable": [{"property_id": p['id'], "reason": na_reasons.get(p['id'], "check not built yet in this revision (work in progress; see DESIGN.md §9)")}
                           for p in props if p['id'] not in CLAIMS],
        "notes": "Every claimed check is decided by solver-based symbolic execution of the real code (DESIGN.md). Exit 0 = held within the stated bounds (KNOWN-FINDING lines list recorded defects), 1 = reproduced violation, 2 = inconclusive/vacuous/unconfirmed.",
    }
    json.dump(m, open('/verif/MANIFEST.json', 'w'), indent=1)
    print("claimed:", sorted(CLAIMS), "not applicable:", [x['property_id'] for x in m['not_applicable']])

main()
