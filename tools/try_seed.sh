#!/bin/bash
# usage: try_seed.sh <seed dir name> <property> [extra vcheck args]: apply the seeded change to /repo, run the
# property's quick check, undo the change. Prints the verdict line.
S=$1; P=$2; shift 2
git -C /repo apply /verif/seeded/$S/patch.diff || { echo "$S: patch does not apply"; exit 2; }
out=$(/verif/bin/vcheck run $P "$@" 2>&1); rc=$?
git -C /repo checkout -- .
nv=$(echo "$out" | grep -c '^VIOLATION')
echo "$S vs $P: exit=$rc violations=$nv $(echo "$out" | grep -m1 ' violation\| race ' | cut -c1-160)"
[ $rc -eq 2 ] && echo "$out" | grep -m3 PROBLEM | cut -c1-300
exit 0
