#!/bin/bash
# usage: run_some.sh <tier> <prop>... : runs the given properties' checks once, logs to /tmp/runall_<tier>/
T=$1; shift; D=/tmp/runall_$T; mkdir -p $D; echo $$ > $D/pid
for p in "$@"; do
  s=$(date +%s); timeout 9000 /verif/bin/vcheck run $p --tier $T > $D/$p.log 2>&1; rc=$?; e=$(date +%s)
  echo "$p exit=$rc secs=$((e-s)) $(grep -c '^KNOWN-FINDING' $D/$p.log) known $(grep -c '^PROBLEM' $D/$p.log) problems" | tee -a $D/summary.txt
done
