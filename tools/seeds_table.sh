#!/bin/bash
# Runs every seeded change against the quick check of its own property; writes /tmp/seeds_table.txt
out=/tmp/seeds_table.txt; : > $out
for d in /verif/seeded/*/; do
  s=$(basename $d); p=${s%-*}
  r=$(/verif/tools/try_seed.sh $s $p --budget 300s 2>&1 | head -1)
  echo "$r" | tee -a $out
done
