#!/bin/bash
# usage: confirm_seed.sh <property> <A|B> <src dir with patch.diff demo_test.go meta.json>
# Confirms a seeded change in a scratch worktree of /repo's HEAD: the patch applies, the unedited
# suite passes with it, the demonstration fails with it and passes without it. On success the
# change is stored as /verif/seeded/<property>-<A|B>/.
set -u
export GOFLAGS=-mod=mod GOPROXY=off GOSUMDB=off GOTOOLCHAIN=local
P=$1; V=$2; SRC=$3
WT=$(mktemp -d /tmp/seedconfirm.XXXXXX)
rmdir $WT
git -C /repo worktree add -q --detach $WT HEAD || exit 2
cleanup() { git -C /repo worktree remove --force $WT 2>/dev/null; rm -rf $WT; }
trap cleanup EXIT
cd $WT
pkgline=$(grep -m1 '^package ' $SRC/demo_test.go | tr -d '\r' | awk '{print $2}')
dir=.
[ "$pkgline" = "commit" ] && dir=commit
testname=$(grep -o 'func Test[A-Za-z0-9_]*' $SRC/demo_test.go | head -1 | sed 's/func //')
res() { echo "$P-$V: $*"; }
git apply --check $SRC/patch.diff 2>/dev/null || { res "patch does not apply to current HEAD"; exit 1; }
# (a) clean + demo passes
cp $SRC/demo_test.go $dir/zz_seed_demo_test.go
if ! go test ${RACEFLAG:-} -vet=off -count=1 -timeout 10m -run "^${testname}\$" ./$dir >/tmp/seed_$P$V.a.log 2>&1; then res "demo FAILS on clean tree"; exit 1; fi
# (b) patched + demo fails
git apply $SRC/patch.diff
if go test ${RACEFLAG:-} -vet=off -count=1 -timeout 10m -run "^${testname}\$" ./$dir >/tmp/seed_$P$V.b.log 2>&1; then res "demo PASSES on patched tree"; exit 1; fi
# (c) patched + full suite passes
rm $dir/zz_seed_demo_test.go
if ! go test -vet=off -count=1 -timeout 25m . ./commit >/tmp/seed_$P$V.c.log 2>&1; then res "existing suite FAILS with the patch"; exit 1; fi
D=/verif/seeded/$P-$V
mkdir -p $D
cp $SRC/patch.diff $SRC/demo_test.go $D/
python3 - "$SRC/meta.json" "$D/meta.json" "$P" "$testname" <<'PY'
import json,sys
src,dst,prop,test=sys.argv[1:5]
try: m=json.load(open(src))
except Exception: m={}
out={"property":prop,"summary":m.get("summary",""),"needs":m.get("needs",""),"demo_test":test,
 "confirmed":["patch applies to /repo HEAD (scratch worktree)","demo test passes on the clean tree","demo test fails with the patch","unedited suite (. and ./commit) passes with the patch"],
 "agent_ran":m.get("ran",[])}
json.dump(out,open(dst,"w"),indent=1)
PY
res "confirmed -> $D"
