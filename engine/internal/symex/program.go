package symex

import (
	"fmt"
	"go/token"
	"go/types"
	"os"
	"sort"
	"strings"
	"sync"
	"sync/atomic"
	"time"

	"golang.org/x/tools/go/packages"
	"golang.org/x/tools/go/ssa"
	"golang.org/x/tools/go/ssa/ssautil"

	"verif/engine/internal/smt"
	"verif/engine/internal/term"
)

// Program is the loaded code base (shared, read-only after Load).
type Program struct {
	Prog       *ssa.Program
	Fset       *token.FileSet
	Pkgs       map[string]*ssa.Package // by import path
	RepoPkgs   map[*ssa.Package]bool
	intrinsics map[string]Intrinsic
	replace    map[string]string // callee name -> harness model function name (same package set)
	replCache  sync.Map
	intrCache  sync.Map
	methCache  sync.Map
	InitAllow  map[string]bool
	LoadSecs   float64
	SkipGo     map[string]bool // functions not started by `go`
	allFuncs   map[string]*ssa.Function
}

// Load builds SSA for the repository packages with the harness overlay applied.
func Load(repoDir string, overlay map[string][]byte, patterns []string) (*Program, error) {
	t0 := time.Now()
	cfg := &packages.Config{
		Mode:       packages.LoadAllSyntax,
		Dir:        repoDir,
		BuildFlags: []string{"-tags=verif", "-mod=mod"},
		Overlay:    overlay,
		Env:        append(os.Environ(), "GOFLAGS=-mod=mod", "GOPROXY=off", "GOSUMDB=off", "GOTOOLCHAIN=local"),
	}
	pkgs, err := packages.Load(cfg, patterns...)
	if err != nil {
		return nil, err
	}
	var errs []string
	packages.Visit(pkgs, nil, func(p *packages.Package) {
		for _, e := range p.Errors {
			errs = append(errs, e.Error())
		}
	})
	if len(errs) > 0 {
		return nil, fmt.Errorf("package load errors:\n%s", strings.Join(errs, "\n"))
	}
	prog, spkgs := ssautil.AllPackages(pkgs, ssa.InstantiateGenerics)
	prog.Build()
	p := &Program{Prog: prog, Fset: prog.Fset, Pkgs: map[string]*ssa.Package{}, RepoPkgs: map[*ssa.Package]bool{},
		intrinsics: buildIntrinsics(), replace: map[string]string{}, InitAllow: map[string]bool{}, SkipGo: map[string]bool{}}
	for _, sp := range prog.AllPackages() {
		p.Pkgs[sp.Pkg.Path()] = sp
	}
	p.allFuncs = map[string]*ssa.Function{}
	for f := range ssautil.AllFunctions(prog) {
		p.allFuncs[f.String()] = f
	}
	for _, sp := range spkgs {
		if sp != nil {
			p.RepoPkgs[sp] = true
			p.InitAllow[sp.Pkg.Path()] = true
		}
	}
	for _, s := range []string{"io"} {
		p.InitAllow[s] = true
	}
	p.LoadSecs = time.Since(t0).Seconds()
	return p, nil
}

func (p *Program) isRepoPkg(sp *ssa.Package) bool { return p.RepoPkgs[sp] }

// AddReplacement makes calls of callee run the harness-side model function instead.
func (p *Program) AddReplacement(callee, model string) { p.replace[callee] = model }

func (p *Program) funcByName(pkg, name string) *ssa.Function {
	sp := p.Pkgs[pkg]
	if sp == nil {
		panic("engine: package not loaded: " + pkg)
	}
	f := sp.Func(name)
	if f == nil {
		panic("engine: no function " + pkg + "." + name)
	}
	return f
}

// FindHarness locates a harness function by name in the repository packages.
func (p *Program) FindHarness(name string) *ssa.Function {
	for sp := range p.RepoPkgs {
		if f := sp.Func(name); f != nil {
			return f
		}
	}
	return nil
}

func (p *Program) intrinsicFor(fn *ssa.Function) Intrinsic {
	if v, ok := p.intrCache.Load(fn); ok {
		if v == nil {
			return nil
		}
		return v.(Intrinsic)
	}
	in := p.intrinsics[intrinsicName(fn)]
	if in == nil {
		p.intrCache.Store(fn, nil)
		return nil
	}
	p.intrCache.Store(fn, in)
	return in
}

func (p *Program) replacementFor(fn *ssa.Function) *ssa.Function {
	if len(p.replace) == 0 {
		return nil
	}
	if v, ok := p.replCache.Load(fn); ok {
		if v == nil {
			return nil
		}
		return v.(*ssa.Function)
	}
	name := fn.String()
	model, ok := p.replace[name]
	if !ok {
		if o := fn.Origin(); o != nil {
			model, ok = p.replace[o.String()]
		}
	}
	if !ok {
		p.replCache.Store(fn, nil)
		return nil
	}
	var r *ssa.Function
	if o := fn.Origin(); o != nil && len(fn.TypeArgs()) > 0 {
		// generic model: instantiate with the same type arguments
		g := p.FindHarness(model)
		if g == nil {
			panic("engine: model function not found: " + model)
		}
		r = p.instantiate(g, fn)
	} else {
		r = p.FindHarness(model)
	}
	if r == nil {
		panic("engine: model function not found: " + model)
	}
	p.replCache.Store(fn, r)
	return r
}

func (p *Program) instantiate(g *ssa.Function, inst *ssa.Function) *ssa.Function {
	n := inst.String()
	k := strings.Index(n, "[")
	if k < 0 {
		return nil
	}
	return p.allFuncs[g.String()+n[k:]]
}

func (p *Program) lookupMethod(t types.Type, meth *types.Func) *ssa.Function {
	ms := p.Prog.MethodSets.MethodSet(t)
	sel := ms.Lookup(meth.Pkg(), meth.Name())
	if sel == nil {
		return nil
	}
	return p.Prog.MethodValue(sel)
}

func (p *Program) implements(t types.Type, it *types.Interface) bool { return false }

func (p *Program) globalOverride(m *Machine, g *ssa.Global) (Value, bool) {
	return nil, false
}

// runInits executes the package initialisers of the repository packages (and a short allowlist).
func (m *Machine) runInits(th *Thread) {
	var paths []string
	for path := range m.P.InitAllow {
		paths = append(paths, path)
	}
	sort.Strings(paths)
	// dependencies first: io, errors before the repo packages; commit before column (sorted order
	// gives errors, github.com/.../column, .../commit, io — so order explicitly)
	order := func(p string) int {
		switch {
		case p == "errors":
			return 0
		case p == "io":
			return 1
		case strings.HasSuffix(p, "/commit"):
			return 2
		}
		return 3
	}
	sort.SliceStable(paths, func(i, j int) bool { return order(paths[i]) < order(paths[j]) })
	for _, path := range paths {
		sp := m.P.Pkgs[path]
		if sp == nil {
			continue
		}
		if f := sp.Func("init"); f != nil {
			th.callFn(f, nil, nil, nil)
		}
	}
	m.initDone = true
}

// ---------------------------------------------------------------------------------------

// HarnessRun collects the results of exploring one harness (shared by all workers).
type HarnessRun struct {
	Name         string
	Entry        *ssa.Function
	Params       map[string]int
	Unwind       int
	MaxSteps     int64
	MaxDecisions int
	MaxPaths     int64
	Preemptions  int
	RaceCheck    bool
	Yields       map[int]bool // enabled hook points (nil = all)
	Fixed        map[string][]uint64 // engine-side replay: concrete values for every input
	FixedSched   []int               // engine-side replay: the thread chosen at every scheduling point
	QueryTimeout int // one-shot budget per query (ms)
	IncrTimeout  int // incremental budget per query (ms) before falling back to one-shot
	Deadline     time.Time

	ContinueAfterViolation bool
	ContinueAfterRace      bool
	DeadlockUnlisted       bool

	mu           sync.Mutex
	Violations   []*Violation
	Inconclusive []string
	Unsupported  []string
	Covered      map[string]bool
	Funcs        map[string]int
	Stubs        map[string]int
	races        map[string]bool
	Witnesses    []*Witness

	Paths       int64
	PathsDone   int64
	Infeasible  int64
	Decisions   int64
	Transitions int64
	AssertPaths int64
	Feas        [3]int64
	Oblig       [3]int64
	SolverNs    int64
	Steps       int64
	Truncated   bool
	WallSecs    float64
	witnessSeen int64
	WitnessMax  int
	Seed        int64
}

// Witness is a completed path with a model, used for translator validation against the
// native build.
type Witness struct {
	Harness  string
	Inputs   map[string][]uint64
	Observes []ObsValue
	Schedule []int
	Sched    [][3]int
	Params   map[string]int
}

type ObsValue struct {
	Label string
	Kind  string
	Val   string
}

func (h *HarnessRun) countFeas(r smt.Result)  { atomic.AddInt64(&h.Feas[r], 1) }
func (h *HarnessRun) countOblig(r smt.Result) { atomic.AddInt64(&h.Oblig[r], 1) }

func (h *HarnessRun) noteInconclusive(s string) {
	h.mu.Lock()
	if len(h.Inconclusive) < 50 {
		h.Inconclusive = append(h.Inconclusive, s)
	}
	h.mu.Unlock()
}

func (h *HarnessRun) addViolation(v *Violation) {
	h.mu.Lock()
	h.Violations = append(h.Violations, v)
	h.mu.Unlock()
}

func (h *HarnessRun) covered(l string) bool {
	h.mu.Lock()
	defer h.mu.Unlock()
	return h.Covered[l]
}

func (h *HarnessRun) cover(l string) {
	h.mu.Lock()
	h.Covered[l] = true
	h.mu.Unlock()
}

func (h *HarnessRun) raceSeen(k string) bool {
	h.mu.Lock()
	defer h.mu.Unlock()
	if h.races[k] {
		return true
	}
	h.races[k] = true
	return false
}

func (h *HarnessRun) yieldEnabled(p int) bool {
	if h.Yields == nil {
		return true
	}
	return h.Yields[p]
}


// Worker owns a term table and a solver.
type Worker struct {
	id    int
	T     *term.Table
	S     *smt.Solver
	funcs map[*ssa.Function]int
	stubs map[*ssa.Function]int
}

type job struct {
	prefix []Decision
}

// Explore runs every path of the harness (within the limits set on h) using nworkers workers.
func (p *Program) Explore(h *HarnessRun, nworkers int, solverBin string) {
	t0 := time.Now()
	h.Covered = map[string]bool{}
	h.Funcs = map[string]int{}
	h.Stubs = map[string]int{}
	h.races = map[string]bool{}
	var mu sync.Mutex
	cond := sync.NewCond(&mu)
	queue := []job{{}}
	busy := 0
	stop := false
	var wg sync.WaitGroup
	for w := 0; w < nworkers; w++ {
		wg.Add(1)
		go func(id int) {
			defer wg.Done()
			wk := &Worker{id: id, T: term.NewTable(), funcs: map[*ssa.Function]int{}, stubs: map[*ssa.Function]int{}}
			s, err := smt.NewWith(solverBin, h.IncrTimeout, h.Params["fpUF"] == 1)
			if err != nil {
				h.noteInconclusive("cannot start solver: " + err.Error())
				return
			}
			wk.S = s
			s.FallbackMs = h.QueryTimeout
			if lf := os.Getenv("VERIF_SMT_LOG"); lf != "" {
				f, _ := os.Create(fmt.Sprintf("%s.%d", lf, id))
				s.Log = f
				defer f.Close()
			}
			defer func() {
				atomic.AddInt64(&h.SolverNs, s.Stats.SolverNs)
				s.Close()
				h.mu.Lock()
				for f, n := range wk.funcs {
					h.Funcs[f.String()] += n
				}
				for f, n := range wk.stubs {
					h.Stubs[f.String()] += n
				}
				h.mu.Unlock()
			}()
			for {
				mu.Lock()
				for len(queue) == 0 && busy > 0 && !stop {
					cond.Wait()
				}
				if stop || (len(queue) == 0 && busy == 0) {
					mu.Unlock()
					cond.Broadcast()
					return
				}
				j := queue[len(queue)-1]
				queue = queue[:len(queue)-1]
				busy++
				mu.Unlock()

				m := p.runOne(h, wk, j)
				var alts []job
				for i := len(j.prefix); i < len(m.decisions); i++ {
					d := m.decisions[i]
					if d.N < 2 {
						continue
					}
					for alt := 0; alt < d.N; alt++ {
						if alt == d.Chosen {
							continue
						}
						np := make([]Decision, i+1)
						copy(np, m.decisions[:i])
						nd := d
						nd.Chosen = alt
						np[i] = nd
						alts = append(alts, job{np})
					}
				}
				// a recycled term table keeps memory bounded
				if wk.T.Size() > 3_000_000 {
					wk.T = term.NewTable()
					wk.S.Restart()
				}
				mu.Lock()
				// deeper alternatives last so that they are taken first (depth-first)
				queue = append(queue, alts...)
				busy--
				n := atomic.AddInt64(&h.Paths, 1)
				if (h.MaxPaths > 0 && n >= h.MaxPaths) || (!h.Deadline.IsZero() && time.Now().After(h.Deadline)) {
					if len(queue) > 0 || busy > 0 {
						h.Truncated = true
					}
					stop = true
				}
				mu.Unlock()
				cond.Broadcast()
			}
		}(w)
	}
	wg.Wait()
	h.WallSecs = time.Since(t0).Seconds()
}

func (p *Program) runOne(h *HarnessRun, wk *Worker, j job) *Machine {
	m := &Machine{P: p, W: wk, T: wk.T, S: wk.S, H: h, prefix: j.prefix,
		strConsts: map[string]*ArrayV{}, globals: map[*ssa.Global]*Cell{}, inputCount: map[string]int{},
		side: map[interface{}]interface{}{}, proved: map[*term.Term]bool{}, funcs: map[*ssa.Function]int{}, stubs: map[*ssa.Function]int{}, syncVC: map[interface{}][]int{}, shadows: map[interface{}]*shadow{}}
	if len(j.prefix) == 0 {
		m.model = term.NewEvaluator(term.Model{})
	}
	m.runPath(h.Entry)
	atomic.AddInt64(&h.Steps, m.steps)
	newDec := int64(len(m.decisions) - len(j.prefix))
	if newDec < 0 {
		newDec = 0
	}
	atomic.AddInt64(&h.Decisions, newDec)
	for i := len(j.prefix); i < len(m.decisions); i++ {
		atomic.AddInt64(&h.Transitions, int64(m.decisions[i].N))
	}
	switch m.status {
	case PathDone:
		atomic.AddInt64(&h.PathsDone, 1)
		if m.asserts > 0 {
			atomic.AddInt64(&h.AssertPaths, 1)
		}
		m.maybeWitness()
	case PathInfeasible:
		atomic.AddInt64(&h.Infeasible, 1)
	case PathViolation:
	case PathInconclusive:
		h.noteInconclusive(h.Name + ": " + m.endMsg)
	case PathUnsupported:
		h.mu.Lock()
		if len(h.Unsupported) < 20 {
			h.Unsupported = append(h.Unsupported, h.Name+": "+m.endMsg)
		}
		h.mu.Unlock()
	}
	for f, n := range m.funcs {
		wk.funcs[f] += n
	}
	for f, n := range m.stubs {
		wk.stubs[f] += n
	}
	return m
}

// maybeWitness keeps a sample of completed paths (reservoir by arrival, seeded) for validation.
func (m *Machine) maybeWitness() {
	h := m.H
	if h.WitnessMax == 0 || len(m.observes) == 0 {
		return
	}
	n := atomic.AddInt64(&h.witnessSeen, 1)
	h.mu.Lock()
	full := len(h.Witnesses) >= h.WitnessMax
	h.mu.Unlock()
	// keep the first WitnessMax/2, then every k-th (k grows) — cheap and deterministic enough
	if full {
		return
	}
	if n > int64(h.WitnessMax/2) && (n+h.Seed)%7 != 0 {
		return
	}
	mod := m.model
	if mod == nil {
		res, mm := m.S.Check(m.pc, nil, true)
		h.countFeas(res)
		if res != smt.Sat {
			return
		}
		mod = term.NewEvaluator(mm)
	}
	w := &Witness{Harness: h.Name, Inputs: m.inputValues(mod), Schedule: append([]int(nil), m.schedule...), Sched: append([][3]int(nil), m.schedTrace...), Params: h.Params}
	for _, o := range m.observes {
		ov := ObsValue{Label: o.Label, Kind: o.Kind}
		switch o.Kind {
		case "u64":
			ov.Val = fmt.Sprintf("%d", mod.Eval(o.V.(*term.Term)))
		case "bool":
			if mod.Bool(o.V.(*term.Term)) {
				ov.Val = "true"
			} else {
				ov.Val = "false"
			}
		case "str":
			s := o.V.(Str)
			b := make([]byte, s.len)
			for i := range b {
				b[i] = byte(mod.Eval(m.strByte(s, i)))
			}
			ov.Val = fmt.Sprintf("%x", b)
		}
		w.Observes = append(w.Observes, ov)
	}
	h.mu.Lock()
	if len(h.Witnesses) < h.WitnessMax {
		h.Witnesses = append(h.Witnesses, w)
	}
	h.mu.Unlock()
}
