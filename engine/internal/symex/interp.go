package symex

import (
	"strings"
	"fmt"
	"go/constant"
	"go/token"
	"go/types"
	"math"

	"golang.org/x/tools/go/ssa"

	"verif/engine/internal/term"
)

type deferred struct {
	fn   Value
	args []Value
	site ssa.Instruction
}

type frame struct {
	fn     *ssa.Function
	env    map[ssa.Value]Value
	block  *ssa.BasicBlock
	prev   *ssa.BasicBlock
	defers []deferred
	result Value
	caller *frame
	instr  ssa.Instruction
	symBr  map[ssa.Instruction]int
}

// Thread is one goroutine of the program under test.
type Thread struct {
	m      *Machine
	id     int
	fr     *frame
	resume chan bool // true = continue, false = abort
	done   bool
	waitCond func() bool
	waitWhat string
	vc       []int
	depth    int
}

func (th *Thread) where() string {
	if th.fr == nil || th.fr.instr == nil {
		return "?"
	}
	fr := th.fr
	pos := fr.instr.Pos()
	for f := fr; !pos.IsValid() && f != nil; f = f.caller {
		if f.instr != nil {
			pos = f.instr.Pos()
		}
		if !pos.IsValid() {
			pos = f.fn.Pos()
		}
	}
	return fmt.Sprintf("%s (%s)", th.m.posString(pos), fr.fn.Name())
}

func (th *Thread) stack() string {
	s := ""
	for f := th.fr; f != nil; f = f.caller {
		p := token.NoPos
		if f.instr != nil {
			p = f.instr.Pos()
		}
		s += fmt.Sprintf("  %s %s\n", f.fn.String(), th.m.posString(p))
	}
	return s
}

func (m *Machine) constValue(c *ssa.Const) Value {
	t := c.Type()
	if c.Value == nil {
		return m.zero(t)
	}
	if _, ok := t.Underlying().(*types.Interface); ok {
		panic(unsupported("non-nil interface constant"))
	}
	b, ok := t.Underlying().(*types.Basic)
	if !ok {
		panic(unsupported("constant of type %v", t))
	}
	switch {
	case b.Info()&types.IsBoolean != 0:
		return m.T.Bool(constant.BoolVal(c.Value))
	case b.Info()&types.IsString != 0:
		return m.constString(constant.StringVal(c.Value))
	case b.Info()&types.IsInteger != 0:
		w, _ := bvWidth(t)
		if b.Info()&types.IsUnsigned != 0 {
			v, _ := constant.Uint64Val(constant.ToInt(c.Value))
			return m.T.Const(w, v)
		}
		v, ok := constant.Int64Val(constant.ToInt(c.Value))
		if !ok {
			u, _ := constant.Uint64Val(constant.ToInt(c.Value))
			return m.T.Const(w, u)
		}
		return m.T.Const(w, uint64(v))
	case b.Info()&types.IsFloat != 0:
		f, _ := constant.Float64Val(c.Value)
		if b.Kind() == types.Float32 {
			return m.T.Const(32, uint64(math.Float32bits(float32(f))))
		}
		return m.T.Const(64, math.Float64bits(f))
	}
	panic(unsupported("constant of type %v", t))
}

func (th *Thread) get(fr *frame, v ssa.Value) Value {
	switch x := v.(type) {
	case *ssa.Const:
		return th.m.constValue(x)
	case *ssa.Global:
		return th.m.global(x)
	case *ssa.Function:
		return x
	case *ssa.Builtin:
		return x
	}
	r, ok := fr.env[v]
	if !ok {
		panic(fmt.Sprintf("engine: no value for %s = %s in %s", v.Name(), v, fr.fn))
	}
	return r
}

// callFn runs a function to completion and returns its result.
func (th *Thread) callFn(fn *ssa.Function, args []Value, env []Value, site ssa.Instruction) Value {
	m := th.m
	if fn.Name() == "init" && fn.Pkg != nil && fn.Synthetic != "" && !m.P.InitAllow[fn.Pkg.Pkg.Path()] {
		return nil // package initialisers outside the allowlist are not run
	}
	if intr := m.P.intrinsicFor(fn); intr != nil {
		m.stubs[fn]++
		return intr(th, fn, args)
	}
	if rep := m.P.replacementFor(fn); rep != nil {
		m.stubs[fn]++
		fn = rep
	}
	if fn.Blocks == nil {
		panic(unsupported("call of external function %s", fn.String()))
	}
	m.funcs[fn]++
	th.depth++
	if th.depth > 400 {
		m.end(PathInconclusive, "call depth limit in "+fn.String())
	}
	fr := &frame{fn: fn, env: make(map[ssa.Value]Value, 16), caller: th.fr}
	for i, p := range fn.Params {
		fr.env[p] = args[i]
	}
	for i, fv := range fn.FreeVars {
		fr.env[fv] = env[i]
	}
	th.fr = fr
	fr.block = fn.Blocks[0]
	for fr.block != nil {
		th.runBlock(fr)
	}
	th.fr = fr.caller
	th.depth--
	return fr.result
}

func (th *Thread) runBlock(fr *frame) {
	m := th.m
	b := fr.block
	for _, instr := range b.Instrs {
		fr.instr = instr
		m.steps++
		if m.steps > m.H.MaxSteps {
			m.end(PathInconclusive, fmt.Sprintf("step budget %d exhausted", m.H.MaxSteps))
		}
		switch in := instr.(type) {
		case *ssa.DebugRef:
		case *ssa.Phi:
			for i, p := range b.Preds {
				if p == fr.prev {
					fr.env[in] = th.get(fr, in.Edges[i])
					break
				}
			}
		case *ssa.If:
			c := th.get(fr, in.Cond).(*term.Term)
			if !c.IsConst() {
				if fr.symBr == nil {
					fr.symBr = map[ssa.Instruction]int{}
				}
				fr.symBr[instr]++
				if fr.symBr[instr] > m.H.Unwind {
					m.unwindFailure(th, instr)
				}
			}
			fr.prev = b
			if m.branch(c) {
				fr.block = b.Succs[0]
			} else {
				fr.block = b.Succs[1]
			}
			return
		case *ssa.Jump:
			fr.prev = b
			fr.block = b.Succs[0]
			return
		case *ssa.Return:
			switch len(in.Results) {
			case 0:
				fr.result = nil
			case 1:
				fr.result = th.get(fr, in.Results[0])
			default:
				tu := make(Tuple, len(in.Results))
				for i, r := range in.Results {
					tu[i] = th.get(fr, r)
				}
				fr.result = tu
			}
			fr.block = nil
			return
		case *ssa.RunDefers:
			th.runDefers(fr)
		case *ssa.Panic:
			v := th.get(fr, in.X)
			m.panicPath("explicit panic: " + th.describe(v))
		case *ssa.Store:
			sp := th.get(fr, in.Addr).(Ptr)
			m.accessPtr(th, sp, true)
			m.store(sp, th.get(fr, in.Val))
		case *ssa.MapUpdate:
			th.mapUpdate(th.get(fr, in.Map), th.get(fr, in.Key), th.get(fr, in.Value))
		case *ssa.Send:
			th.chanSend(th.get(fr, in.Chan).(*ChanV), th.get(fr, in.X))
		case *ssa.Defer:
			fnv, args := th.prepareCall(fr, &in.Call)
			fr.defers = append(fr.defers, deferred{fnv, args, instr})
		case *ssa.Go:
			fnv, args := th.prepareCall(fr, &in.Call)
			if f, ok := fnv.(*ssa.Function); ok && f.Name() == "vacuum" && m.P.isRepoPkg(f.Pkg) {
				break // the background cleanup is driven explicitly by the C17 harness
			}
			m.spawn(th, fnv, args)
		case ssa.Value:
			fr.env[in] = th.eval(fr, in)
		default:
			panic(unsupported("instruction %T", instr))
		}
	}
	panic("engine: block without terminator")
}

func (m *Machine) unwindFailure(th *Thread, instr ssa.Instruction) {
	msg := fmt.Sprintf("unwinding limit %d reached at %s", m.H.Unwind, th.where())
	if !m.inPrefix() {
		m.H.noteInconclusive(m.H.Name + ": " + msg)
	}
	m.end(PathInconclusive, msg)
}

func (th *Thread) runDefers(fr *frame) {
	for len(fr.defers) > 0 {
		d := fr.defers[len(fr.defers)-1]
		fr.defers = fr.defers[:len(fr.defers)-1]
		th.callValue(d.fn, d.args, d.site)
	}
}

func (th *Thread) describe(v Value) string {
	switch x := v.(type) {
	case Iface:
		if x.t == nil {
			return "nil"
		}
		if s, ok := x.v.(Str); ok {
			if cs, ok := th.m.concreteString(s); ok {
				return cs
			}
		}
		return typeString(x.t)
	}
	return fmt.Sprintf("%T", v)
}

// prepareCall evaluates callee and arguments of a call.
func (th *Thread) prepareCall(fr *frame, c *ssa.CallCommon) (Value, []Value) {
	var args []Value
	var fnv Value
	if c.IsInvoke() {
		recv := th.get(fr, c.Value).(Iface)
		if recv.t == nil {
			th.m.panicPath("method call on nil interface")
		}
		fn := th.m.P.lookupMethod(recv.t, c.Method)
		if fn == nil {
			panic(unsupported("no method %s on %s", c.Method.Name(), typeString(recv.t)))
		}
		fnv = fn
		args = append(args, recv.v)
	} else {
		fnv = th.get(fr, c.Value)
	}
	for _, a := range c.Args {
		args = append(args, th.get(fr, a))
	}
	return fnv, args
}

func (th *Thread) callValue(fnv Value, args []Value, site ssa.Instruction) Value {
	switch f := fnv.(type) {
	case *ssa.Function:
		return th.callFn(f, args, nil, site)
	case *Closure:
		return th.callFn(f.fn, args, f.env, site)
	case *ssa.Builtin:
		return th.builtin(f, args, site)
	case *NativeFunc:
		return f.fn(th, args)
	case nil:
		th.m.panicPath("call of nil function")
	}
	panic(unsupported("call of %T", fnv))
}

func (th *Thread) idx64(v ssa.Value, fr *frame) *term.Term {
	t := th.get(fr, v).(*term.Term)
	if t.W == 64 {
		return t
	}
	if isSigned(v.Type()) {
		return th.m.T.SExt(64, t)
	}
	return th.m.T.ZExt(64, t)
}

// checkIndex makes sure 0 <= idx < n (idx as unsigned 64-bit term).
func (th *Thread) checkIndex(idx *term.Term, n int, what string) {
	m := th.m
	if idx.IsConst() {
		if idx.Val >= uint64(n) {
			m.panicPath(fmt.Sprintf("%s: index %d out of range [0,%d)", what, int64(idx.Val), n))
		}
		return
	}
	if idx.UMax() < uint64(n) {
		return
	}
	m.obligation("panic", m.T.ULt(idx, m.T.Const(64, uint64(n))), fmt.Sprintf("panic: %s: index out of range [0,%d)", what, n), th.where())
}

func (th *Thread) concreteInt(t *term.Term, what string) int {
	if t.IsConst() {
		return int(term.SExt64(t.Val, t.W))
	}
	return int(term.SExt64(th.m.concretize(t, what), t.W))
}

// concretize picks a concrete value for t by forking on t == v for model values v.
func (m *Machine) concretize(t *term.Term, what string) uint64 {
	for i := 0; i < m.H.Unwind; i++ {
		if m.inPrefix() {
			d := m.prefix[m.cursor]
			c, last := m.decide("cz", 2, 0)
			eq := m.T.Eq(t, m.T.Const(t.W, d.Val))
			if c == 1 {
				m.addPC(eq)
				if last {
					m.establishModel()
				}
				return d.Val
			}
			m.addPC(m.T.Not(eq))
			if last {
				m.establishModel()
			}
			continue
		}
		if m.model == nil {
			m.establishModel()
			if m.model == nil {
				m.end(PathInconclusive, "no model to concretize "+what)
			}
		}
		v := m.model.Eval(t)
		m.decide("cz", 2, 1)
		m.decisions[len(m.decisions)-1].Val = v
		m.decisions[len(m.decisions)-1].Model = nil
		m.addPC(m.T.Eq(t, m.T.Const(t.W, v)))
		return v
	}
	m.H.noteInconclusive("concretization limit for " + what)
	m.end(PathInconclusive, "concretization limit")
	return 0
}

func (th *Thread) eval(fr *frame, instr ssa.Value) Value {
	m := th.m
	T := m.T
	switch in := instr.(type) {
	case *ssa.Alloc:
		return m.newCell(in.Type().(*types.Pointer).Elem())
	case *ssa.UnOp:
		return th.unop(fr, in)
	case *ssa.BinOp:
		return th.binop(in.Op, in.X.Type(), th.get(fr, in.X), th.get(fr, in.Y), in.Y.Type())
	case *ssa.Call:
		fnv, args := th.prepareCall(fr, &in.Call)
		return th.callValue(fnv, args, in)
	case *ssa.ChangeInterface:
		return th.get(fr, in.X)
	case *ssa.ChangeType:
		return th.get(fr, in.X)
	case *ssa.Convert:
		return th.convert(in.X.Type(), in.Type(), th.get(fr, in.X))
	case *ssa.MakeInterface:
		return Iface{t: in.X.Type(), v: th.get(fr, in.X)}
	case *ssa.Extract:
		return th.get(fr, in.Tuple).(Tuple)[in.Index]
	case *ssa.MakeClosure:
		c := &Closure{fn: in.Fn.(*ssa.Function)}
		for _, b := range in.Bindings {
			c.env = append(c.env, th.get(fr, b))
		}
		return c
	case *ssa.MakeSlice:
		n := th.concreteInt(th.get(fr, in.Len).(*term.Term), "make len")
		c := th.concreteInt(th.get(fr, in.Cap).(*term.Term), "make cap")
		if n < 0 || c < n {
			m.panicPath("makeslice: len out of range")
		}
		if c > 1<<26 {
			m.panicPath(fmt.Sprintf("makeslice: cap %d too large for the engine", c))
		}
		a := m.newArray(in.Type().Underlying().(*types.Slice).Elem(), c)
		return Slice{a: a, len: n, cap: c}
	case *ssa.MakeMap:
		mt := in.Type().Underlying().(*types.Map)
		// maps made by harness or model code (the I/O models keep side tables keyed by writer,
		// reader and file) are bookkeeping of the verification layer, not state of the code under
		// test: they take no part in race detection
		return &MapV{kt: mt.Key(), vt: mt.Elem(), id: m.newID(), model: strings.Contains(m.posString(in.Pos()), "zz_verif_")}
	case *ssa.MakeChan:
		n := th.concreteInt(th.get(fr, in.Size).(*term.Term), "chan size")
		return &ChanV{cap: n, id: m.newID(), elem: in.Type().Underlying().(*types.Chan).Elem()}
	case *ssa.FieldAddr:
		p := th.get(fr, in.X).(Ptr)
		if p.c == nil {
			m.panicPath("nil pointer dereference (field address)")
		}
		s, ok := m.loadRef(p).(*StructV)
		if !ok {
			panic(unsupported("FieldAddr through %T (type %v)", m.loadRef(p), in.X.Type()))
		}
		return Ptr{c: s, i: in.Field}
	case *ssa.Field:
		return m.copyVal(th.get(fr, in.X).(*StructV).f[in.Field])
	case *ssa.IndexAddr:
		x := th.get(fr, in.X)
		idx := th.idx64(in.Index, fr)
		switch a := x.(type) {
		case Slice:
			th.checkIndex(idx, a.len, "slice index")
			if idx.IsConst() {
				return Ptr{c: a.a, i: a.off + int(idx.Val)}
			}
			return Ptr{c: a.a, sym: T.Add(idx, T.Const(64, uint64(a.off)))}
		case Ptr:
			if a.c == nil {
				m.panicPath("nil pointer dereference (array index)")
			}
			arr := m.loadRef(a).(*ArrayV)
			th.checkIndex(idx, arr.n, "array index")
			if idx.IsConst() {
				return Ptr{c: arr, i: int(idx.Val)}
			}
			return Ptr{c: arr, sym: idx}
		}
		panic(unsupported("IndexAddr on %T", x))
	case *ssa.Index:
		x := th.get(fr, in.X)
		idx := th.idx64(in.Index, fr)
		switch a := x.(type) {
		case *ArrayV:
			th.checkIndex(idx, a.n, "array index")
			return m.copyVal(a.getSym(m, idx))
		case Str:
			th.checkIndex(idx, a.len, "string index")
			if idx.IsConst() {
				return a.a.slotGet(m, a.off+int(idx.Val))
			}
			return a.a.getSym(m, T.Add(idx, T.Const(64, uint64(a.off))))
		}
		panic(unsupported("Index on %T", x))
	case *ssa.Slice:
		return th.sliceOp(fr, in)
	case *ssa.Lookup:
		return th.lookup(fr, in)
	case *ssa.TypeAssert:
		return th.typeAssert(fr, in)
	case *ssa.Range:
		x := th.get(fr, in.X)
		switch c := x.(type) {
		case *MapV:
			it := &rangeIter{m: c}
			if c != nil {
				it.keys = append(it.keys, c.keys...)
				it.vals = append(it.vals, c.vals...)
			}
			return it
		case Str:
			return &rangeIter{s: c}
		}
		panic(unsupported("range over %T", x))
	case *ssa.Next:
		it := th.get(fr, in.Iter).(*rangeIter)
		if in.IsString {
			if it.pos >= it.s.len {
				return Tuple{T.False, T.Const(64, 0), T.Const(32, 0)}
			}
			b := m.strByte(it.s, it.pos)
			if !b.IsConst() || b.Val >= 0x80 {
				// symbolic or multi-byte: treat bytes below 0x80 only
				m.obligation("panic", T.ULt(b, T.Const(8, 0x80)), "engine: non-ASCII string range", th.where())
			}
			r := Tuple{T.True, T.Const(64, uint64(it.pos)), T.ZExt(32, b)}
			it.pos++
			return r
		}
		for it.pos < len(it.keys) {
			k, v := it.keys[it.pos], it.vals[it.pos]
			it.pos++
			// skip entries deleted during iteration
			if it.m.find(m, k) < 0 {
				continue
			}
			return Tuple{T.True, k, v}
		}
		mt := in.Iter.(*ssa.Range).X.Type().Underlying().(*types.Map)
		return Tuple{T.False, m.zero(mt.Key()), m.zero(mt.Elem())}
	case *ssa.Select:
		return th.selectOp(fr, in)
	case *ssa.SliceToArrayPointer:
		panic(unsupported("SliceToArrayPointer"))
	case *ssa.MultiConvert:
		panic(unsupported("MultiConvert"))
	}
	panic(unsupported("value instruction %T", instr))
}

func (th *Thread) sliceOp(fr *frame, in *ssa.Slice) Value {
	m := th.m
	x := th.get(fr, in.X)
	var lo, hi, max = -1, -1, -1
	geti := func(v ssa.Value) int {
		if v == nil {
			return -1
		}
		return th.concreteInt(th.get(fr, v).(*term.Term), "slice bound")
	}
	lo, hi, max = geti(in.Low), geti(in.High), geti(in.Max)
	if lo < 0 {
		if in.Low != nil {
			m.panicPath("slice bounds out of range (negative low)")
		}
		lo = 0
	}
	switch a := x.(type) {
	case Slice:
		if in.High == nil {
			hi = a.len
		}
		if in.Max == nil {
			max = a.cap
		}
		if hi < 0 || max < 0 || lo > hi || hi > max || max > a.cap {
			m.panicPath(fmt.Sprintf("slice bounds out of range [%d:%d:%d] with capacity %d", lo, hi, max, a.cap))
		}
		if a.a == nil {
			return Slice{}
		}
		return Slice{a: a.a, off: a.off + lo, len: hi - lo, cap: max - lo}
	case Str:
		if in.High == nil {
			hi = a.len
		}
		if hi < 0 || lo > hi || hi > a.len {
			m.panicPath(fmt.Sprintf("string slice bounds out of range [%d:%d] with length %d", lo, hi, a.len))
		}
		if hi == lo {
			return Str{}
		}
		return Str{a: a.a, off: a.off + lo, len: hi - lo}
	case Ptr:
		if a.c == nil {
			m.panicPath("nil pointer dereference (slice of array)")
		}
		arr := m.loadRef(a).(*ArrayV)
		if in.High == nil {
			hi = arr.n
		}
		if in.Max == nil {
			max = arr.n
		}
		if hi < 0 || lo > hi || hi > max || max > arr.n {
			m.panicPath("slice bounds out of range (array)")
		}
		return Slice{a: arr, off: lo, len: hi - lo, cap: max - lo}
	}
	panic(unsupported("slice of %T", x))
}

func (th *Thread) typeAssert(fr *frame, in *ssa.TypeAssert) Value {
	m := th.m
	x := th.get(fr, in.X).(Iface)
	ok := false
	var v Value
	if x.t != nil {
		if it, isIface := in.AssertedType.Underlying().(*types.Interface); isIface {
			ok = types.Implements(x.t, it) || m.P.implements(x.t, it)
			v = x
		} else {
			ok = types.Identical(x.t, in.AssertedType)
			v = x.v
		}
	}
	if in.CommaOk {
		if !ok {
			v = m.zero(in.AssertedType)
		}
		return Tuple{v, m.T.Bool(ok)}
	}
	if !ok {
		m.panicPath(fmt.Sprintf("interface conversion: %s is not %s", typeString(x.t), typeString(in.AssertedType)))
	}
	return v
}

// ---------------------------------------------------------------------------------------
// maps

// find returns the index of key k, forking on symbolic equality; -1 if absent.
func (mp *MapV) find(m *Machine, k Value) int {
	if mp == nil {
		return -1
	}
	for i, e := range mp.keys {
		eq := m.valEq(e, k)
		if eq.IsConst() {
			if eq.Val != 0 {
				return i
			}
			continue
		}
		if m.branch(eq) {
			return i
		}
	}
	return -1
}

func (th *Thread) lookup(fr *frame, in *ssa.Lookup) Value {
	m := th.m
	x := th.get(fr, in.X)
	switch c := x.(type) {
	case Str:
		idx := th.idx64(in.Index, fr)
		th.checkIndex(idx, c.len, "string index")
		if idx.IsConst() {
			return c.a.slotGet(m, c.off+int(idx.Val))
		}
		return c.a.getSym(m, m.T.Add(idx, m.T.Const(64, uint64(c.off))))
	case *MapV:
		k := th.get(fr, in.Index)
		vt := in.X.Type().Underlying().(*types.Map).Elem()
		if c != nil {
			m.access(th, c, false)
		}
		i := c.find(m, k)
		var v Value
		if i >= 0 {
			v = m.copyVal(c.vals[i])
		} else {
			v = m.zero(vt)
		}
		if in.CommaOk {
			return Tuple{v, m.T.Bool(i >= 0)}
		}
		return v
	}
	panic(unsupported("lookup in %T", x))
}

func (th *Thread) mapUpdate(mv Value, k, v Value) {
	m := th.m
	mp := mv.(*MapV)
	if mp == nil {
		m.panicPath("assignment to entry in nil map")
	}
	m.access(th, mp, true)
	if i := mp.find(m, k); i >= 0 {
		mp.vals[i] = m.copyVal(v)
		return
	}
	mp.keys = append(mp.keys, m.freezeKey(k))
	mp.vals = append(mp.vals, m.copyVal(v))
}

// freezeKey copies string keys so that later writes to the source bytes do not change the key.
func (m *Machine) freezeKey(k Value) Value {
	if s, ok := k.(Str); ok && s.len > 0 && !s.a.ro {
		return Str{a: m.copyBytes(s.a, s.off, s.len), len: s.len}
	}
	return m.copyVal(k)
}

func (th *Thread) mapDelete(mv Value, k Value) {
	mp := mv.(*MapV)
	if mp == nil {
		return
	}
	th.m.access(th, mp, true)
	if i := mp.find(th.m, k); i >= 0 {
		mp.keys = append(mp.keys[:i:i], mp.keys[i+1:]...)
		mp.vals = append(mp.vals[:i:i], mp.vals[i+1:]...)
	}
}
