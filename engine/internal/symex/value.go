// Package symex is a bounded symbolic executor for Go SSA.
package symex

import (
	"fmt"
	"go/types"
	"sort"

	"golang.org/x/tools/go/ssa"

	"verif/engine/internal/term"
)

// Value is one of:
//
//	*term.Term   Bool or bit-vector scalar (floats as IEEE bits)
//	Ptr          pointer to a slot
//	Slice, Str   views of an *ArrayV
//	*StructV     struct value
//	*ArrayV      array value
//	Iface        interface value
//	*Closure     function value (also *ssa.Function, *ssa.Builtin)
//	*MapV        map
//	*ChanV       channel
//	Tuple        multiple results
//	nil          the zero of func
type Value interface{}

// Container holds slots that pointers can designate.
type Container interface {
	slotGet(m *Machine, i int) Value
	slotSet(m *Machine, i int, v Value)
}

// Cell is a single-slot object.
type Cell struct {
	v  Value
	id int
}

func (c *Cell) slotGet(m *Machine, i int) Value    { return c.v }
func (c *Cell) slotSet(m *Machine, i int, v Value) { c.v = v }

type StructV struct {
	f  []Value
	id int
}

func (s *StructV) slotGet(m *Machine, i int) Value    { return s.f[i] }
func (s *StructV) slotSet(m *Machine, i int, v Value) { s.f[i] = v }

// ArrayV is the backing store of arrays, slices and strings. Scalar (bit-vector) element arrays
// are lazy: a default, sparse concrete-index overrides, and an SMT array term once a symbolic
// index has been used.
type ArrayV struct {
	elem types.Type
	w    uint8 // element width when the element is a bit-vector scalar, else 0
	n    int   // number of elements
	conc map[int]Value
	def  Value      // default element (scalars and other immutable values); nil for aggregates
	sym  *term.Term // array term (scalar arrays only) — when set, conc is unused
	id   int
	ro   bool // backing store of a string constant
	// writes at symbolic indices into arrays of non-scalar (immutable) elements: an ordered
	// overlay; reads fork on index equality
	symW []symWrite
}

type symWrite struct {
	idx *term.Term
	val Value
}

func (a *ArrayV) slotGet(m *Machine, i int) Value {
	if i < 0 || i >= a.n {
		panic(fmt.Sprintf("engine: array slot %d out of range %d", i, a.n))
	}
	if len(a.symW) > 0 {
		return a.getOverlay(m, m.T.Const(64, uint64(i)))
	}
	if a.sym != nil {
		return m.T.Select(a.sym, m.T.Const(64, uint64(i)))
	}
	if v, ok := a.conc[i]; ok {
		return v
	}
	if a.def != nil {
		return a.def
	}
	v := m.zero(a.elem)
	a.conc[i] = v
	return v
}

func (a *ArrayV) slotSet(m *Machine, i int, v Value) {
	if i < 0 || i >= a.n {
		panic(fmt.Sprintf("engine: array slot %d out of range %d", i, a.n))
	}
	if len(a.symW) > 0 {
		a.symW = append(a.symW, symWrite{m.T.Const(64, uint64(i)), v})
		return
	}
	if a.sym != nil {
		a.sym = m.T.Store(a.sym, m.T.Const(64, uint64(i)), v.(*term.Term))
		return
	}
	a.conc[i] = v
}

// symTerm materialises the SMT array term.
func (a *ArrayV) symTerm(m *Machine) *term.Term {
	if a.w == 0 {
		panic(unsupported("symbolic index into an array of non-scalar elements"))
	}
	if a.sym == nil {
		arr := m.T.ConstArr(a.w, a.def.(*term.Term))
		keys := make([]int, 0, len(a.conc))
		for k := range a.conc {
			keys = append(keys, k)
		}
		sort.Ints(keys)
		for _, k := range keys {
			arr = m.T.Store(arr, m.T.Const(64, uint64(k)), a.conc[k].(*term.Term))
		}
		a.sym = arr
		a.conc = nil
	}
	return a.sym
}

// getOverlay reads an element of a non-scalar array that has writes at symbolic indices: the
// newest matching write wins; which write matches is decided by forking on index equality.
func (a *ArrayV) getOverlay(m *Machine, idx *term.Term) Value {
	for k := len(a.symW) - 1; k >= 0; k-- {
		if m.branch(m.T.Eq(idx, a.symW[k].idx)) {
			return a.symW[k].val
		}
	}
	if idx.IsConst() {
		if v, ok := a.conc[int(idx.Val)]; ok {
			return v
		}
	} else {
		keys := make([]int, 0, len(a.conc))
		for k := range a.conc {
			keys = append(keys, k)
		}
		sort.Ints(keys)
		for _, k := range keys {
			if m.branch(m.T.Eq(idx, m.T.Const(64, uint64(k)))) {
				return a.conc[k]
			}
		}
	}
	if a.def != nil {
		return a.def
	}
	panic(unsupported("symbolic index into an array of aggregate elements"))
}

func (a *ArrayV) getSym(m *Machine, idx *term.Term) Value {
	if idx.IsConst() {
		return a.slotGet(m, int(idx.Val))
	}
	if a.w == 0 {
		if a.def == nil {
			panic(unsupported("symbolic index into an array of aggregate elements"))
		}
		return a.getOverlay(m, idx)
	}
	return m.T.Select(a.symTerm(m), idx)
}

func (a *ArrayV) setSym(m *Machine, idx *term.Term, v Value) {
	if idx.IsConst() {
		a.slotSet(m, int(idx.Val), v)
		return
	}
	if a.w == 0 {
		if a.def == nil {
			panic(unsupported("symbolic index into an array of aggregate elements"))
		}
		a.symW = append(a.symW, symWrite{idx, v})
		return
	}
	a.sym = m.T.Store(a.symTerm(m), idx, v.(*term.Term))
}

// Ptr designates slot i of container c; sym is a symbolic element index (scalar arrays only).
type Ptr struct {
	c   Container
	i   int
	sym *term.Term
}

func (p Ptr) IsNil() bool { return p.c == nil }

type Slice struct {
	a             *ArrayV
	off, len, cap int
}

type Str struct {
	a        *ArrayV
	off, len int
}

type Iface struct {
	t types.Type
	v Value
}

type Closure struct {
	fn  *ssa.Function
	env []Value
}

// BoundMethod is a method value created by invoke-mode MakeClosure-like wrappers.
type MapV struct {
	model bool // made by harness/model code: not race-checked
	keys []Value
	vals []Value
	kt   types.Type
	vt   types.Type
	id   int
}

type Tuple []Value

type ChanV struct {
	buf  []Value
	cap  int
	id   int
	elem types.Type
}

// rangeIter is the state of a Range instruction.
type rangeIter struct {
	m   *MapV
	s   Str
	pos int
	// snapshot of keys for maps
	keys []Value
	vals []Value
}

type unsupportedErr struct{ msg string }

func unsupported(format string, args ...interface{}) unsupportedErr {
	return unsupportedErr{fmt.Sprintf(format, args...)}
}

// ---------------------------------------------------------------------------------------

func bvWidth(t types.Type) (uint8, bool) {
	b, ok := t.Underlying().(*types.Basic)
	if !ok {
		return 0, false
	}
	switch b.Kind() {
	case types.Int8, types.Uint8:
		return 8, true
	case types.Int16, types.Uint16:
		return 16, true
	case types.Int32, types.Uint32, types.Float32:
		return 32, true
	case types.Int, types.Uint, types.Int64, types.Uint64, types.Uintptr, types.Float64, types.UntypedInt, types.UntypedFloat, types.UntypedRune:
		return 64, true
	}
	return 0, false
}

func isSigned(t types.Type) bool {
	b, ok := t.Underlying().(*types.Basic)
	return ok && b.Info()&types.IsInteger != 0 && b.Info()&types.IsUnsigned == 0
}

func isFloat(t types.Type) bool {
	b, ok := t.Underlying().(*types.Basic)
	return ok && b.Info()&types.IsFloat != 0
}

func isInteger(t types.Type) bool {
	b, ok := t.Underlying().(*types.Basic)
	return ok && b.Info()&types.IsInteger != 0
}

func isString(t types.Type) bool {
	b, ok := t.Underlying().(*types.Basic)
	return ok && b.Info()&types.IsString != 0
}

func isBool(t types.Type) bool {
	b, ok := t.Underlying().(*types.Basic)
	return ok && b.Info()&types.IsBoolean != 0
}

func (m *Machine) newID() int { m.nextID++; return m.nextID }

func (m *Machine) newArray(elem types.Type, n int) *ArrayV {
	a := &ArrayV{elem: elem, n: n, conc: map[int]Value{}, id: m.newID()}
	if w, ok := bvWidth(elem); ok {
		a.w = w
		a.def = m.T.Const(w, 0)
	} else {
		switch elem.Underlying().(type) {
		case *types.Struct, *types.Array:
			// aggregates are created lazily per slot
		default:
			a.def = m.zero(elem)
		}
	}
	return a
}

// zero returns the zero value of a type.
func (m *Machine) zero(t types.Type) Value {
	switch u := t.Underlying().(type) {
	case *types.Basic:
		switch {
		case u.Info()&types.IsBoolean != 0:
			return m.T.False
		case u.Info()&types.IsString != 0:
			return Str{}
		case u.Kind() == types.UnsafePointer:
			return Ptr{}
		case u.Kind() == types.UntypedNil:
			return nil
		}
		if w, ok := bvWidth(t); ok {
			return m.T.Const(w, 0)
		}
		panic(unsupported("zero of basic %v", t))
	case *types.Pointer:
		return Ptr{}
	case *types.Slice:
		return Slice{}
	case *types.Struct:
		s := &StructV{f: make([]Value, u.NumFields()), id: m.newID()}
		for i := range s.f {
			s.f[i] = m.zero(u.Field(i).Type())
		}
		return s
	case *types.Array:
		return m.newArray(u.Elem(), int(u.Len()))
	case *types.Interface:
		return Iface{}
	case *types.Map:
		return (*MapV)(nil)
	case *types.Signature:
		return nil
	case *types.Chan:
		return (*ChanV)(nil)
	case *types.Tuple:
		tu := make(Tuple, u.Len())
		for i := range tu {
			tu[i] = m.zero(u.At(i).Type())
		}
		return tu
	}
	panic(unsupported("zero of %v", t))
}

// copyVal deep-copies aggregate values (struct and array values have value semantics).
func (m *Machine) copyVal(v Value) Value {
	switch x := v.(type) {
	case *StructV:
		n := &StructV{f: make([]Value, len(x.f)), id: m.newID()}
		for i, f := range x.f {
			n.f[i] = m.copyVal(f)
		}
		return n
	case *ArrayV:
		n := &ArrayV{elem: x.elem, w: x.w, n: x.n, def: x.def, sym: x.sym, id: m.newID(), symW: append([]symWrite(nil), x.symW...)}
		if x.conc != nil {
			n.conc = make(map[int]Value, len(x.conc))
			for k, e := range x.conc {
				n.conc[k] = m.copyVal(e)
			}
		}
		return n
	case Tuple:
		n := make(Tuple, len(x))
		for i := range x {
			n[i] = m.copyVal(x[i])
		}
		return n
	}
	return v
}

// assign stores v into slot i of c; aggregates are copied into the existing node so that interior
// pointers stay valid.
func (m *Machine) assign(c Container, i int, v Value) {
	switch x := v.(type) {
	case *StructV:
		if old, ok := c.slotGet(m, i).(*StructV); ok && old != nil && len(old.f) == len(x.f) {
			if old == x {
				return
			}
			for j := range x.f {
				m.assign(old, j, x.f[j])
			}
			return
		}
		c.slotSet(m, i, m.copyVal(v))
		return
	case *ArrayV:
		if old, ok := c.slotGet(m, i).(*ArrayV); ok && old != nil && old.n == x.n {
			if old == x {
				return
			}
			old.def, old.sym = x.def, x.sym
			old.symW = append([]symWrite(nil), x.symW...)
			old.conc = nil
			if x.conc != nil {
				old.conc = make(map[int]Value, len(x.conc))
				for k, e := range x.conc {
					old.conc[k] = m.copyVal(e)
				}
			}
			return
		}
		c.slotSet(m, i, m.copyVal(v))
		return
	}
	c.slotSet(m, i, v)
}

// load reads through a pointer (copying aggregates out).
func (m *Machine) load(p Ptr) Value {
	if p.c == nil {
		m.panicPath("nil pointer dereference")
	}
	if p.sym != nil {
		return p.c.(*ArrayV).getSym(m, p.sym)
	}
	return m.copyVal(p.c.slotGet(m, p.i))
}

// loadRef reads through a pointer without copying (for navigation only).
func (m *Machine) loadRef(p Ptr) Value {
	if p.c == nil {
		m.panicPath("nil pointer dereference")
	}
	if p.sym != nil {
		return p.c.(*ArrayV).getSym(m, p.sym)
	}
	return p.c.slotGet(m, p.i)
}

func (m *Machine) store(p Ptr, v Value) {
	if p.c == nil {
		m.panicPath("nil pointer dereference")
	}
	if a, ok := p.c.(*ArrayV); ok && a.ro {
		m.panicPath("write to read-only string memory")
	}
	if p.sym != nil {
		p.c.(*ArrayV).setSym(m, p.sym, v)
		return
	}
	m.assign(p.c, p.i, v)
}

// newCell allocates a fresh object holding the zero value of t and returns a pointer to it.
func (m *Machine) newCell(t types.Type) Ptr {
	return Ptr{c: &Cell{v: m.zero(t), id: m.newID()}}
}

// ---------------------------------------------------------------------------------------
// strings

func (m *Machine) constString(s string) Str {
	if len(s) == 0 {
		return Str{}
	}
	if a, ok := m.strConsts[s]; ok {
		return Str{a: a, len: len(s)}
	}
	a := &ArrayV{elem: types.Typ[types.Uint8], w: 8, n: len(s), conc: make(map[int]Value, len(s)), def: m.T.Const(8, 0), id: m.newID(), ro: true}
	for i := 0; i < len(s); i++ {
		a.conc[i] = m.T.Const(8, uint64(s[i]))
	}
	m.strConsts[s] = a
	return Str{a: a, len: len(s)}
}

func (m *Machine) strByte(s Str, i int) *term.Term {
	return s.a.slotGet(m, s.off+i).(*term.Term)
}

// concreteString returns the Go string if all bytes are concrete.
func (m *Machine) concreteString(s Str) (string, bool) {
	b := make([]byte, s.len)
	for i := 0; i < s.len; i++ {
		t := m.strByte(s, i)
		if !t.IsConst() {
			return "", false
		}
		b[i] = byte(t.Val)
	}
	return string(b), true
}

func (m *Machine) strEq(a, b Str) *term.Term {
	if a.len != b.len {
		return m.T.False
	}
	r := m.T.True
	if a.a == b.a && a.off == b.off {
		return r
	}
	for i := 0; i < a.len; i++ {
		r = m.T.And(r, m.T.Eq(m.strByte(a, i), m.strByte(b, i)))
		if r.IsFalse() {
			return r
		}
	}
	return r
}

// strLess is lexicographic a < b.
func (m *Machine) strLess(a, b Str) *term.Term {
	n := a.len
	if b.len < n {
		n = b.len
	}
	// from the back: less_i = a[i]<b[i] || (a[i]==b[i] && less_{i+1}); base: a.len < b.len
	r := m.T.Bool(a.len < b.len)
	for i := n - 1; i >= 0; i-- {
		x, y := m.strByte(a, i), m.strByte(b, i)
		r = m.T.Or(m.T.ULt(x, y), m.T.And(m.T.Eq(x, y), r))
	}
	return r
}

func (m *Machine) strConcat(a, b Str) Str {
	if a.len == 0 {
		return b
	}
	if b.len == 0 {
		return a
	}
	arr := m.newArray(types.Typ[types.Uint8], a.len+b.len)
	for i := 0; i < a.len; i++ {
		arr.conc[i] = m.strByte(a, i)
	}
	for i := 0; i < b.len; i++ {
		arr.conc[a.len+i] = m.strByte(b, i)
	}
	return Str{a: arr, len: a.len + b.len}
}

// copyBytes makes a fresh array from n elements of src starting at off.
func (m *Machine) copyBytes(src *ArrayV, off, n int) *ArrayV {
	arr := m.newArray(types.Typ[types.Uint8], n)
	for i := 0; i < n; i++ {
		arr.conc[i] = src.slotGet(m, off+i)
	}
	return arr
}

// ---------------------------------------------------------------------------------------
// equality of values (for ==, map keys, interface comparison)

func (m *Machine) valEq(a, b Value) *term.Term {
	switch x := a.(type) {
	case *term.Term:
		return m.T.Eq(x, b.(*term.Term))
	case Ptr:
		y := b.(Ptr)
		if x.c != y.c {
			return m.T.False
		}
		if x.sym != nil || y.sym != nil {
			xi, yi := x.sym, y.sym
			if xi == nil {
				xi = m.T.Const(64, uint64(x.i))
			}
			if yi == nil {
				yi = m.T.Const(64, uint64(y.i))
			}
			return m.T.Eq(xi, yi)
		}
		return m.T.Bool(x.i == y.i)
	case Str:
		return m.strEq(x, b.(Str))
	case Iface:
		y := b.(Iface)
		if x.t == nil || y.t == nil {
			return m.T.Bool(x.t == nil && y.t == nil)
		}
		if !types.Identical(x.t, y.t) {
			return m.T.False
		}
		return m.valEq(x.v, y.v)
	case *StructV:
		y := b.(*StructV)
		r := m.T.True
		for i := range x.f {
			r = m.T.And(r, m.valEq(x.f[i], y.f[i]))
		}
		return r
	case *ArrayV:
		y := b.(*ArrayV)
		r := m.T.True
		for i := 0; i < x.n; i++ {
			r = m.T.And(r, m.valEq(x.slotGet(m, i), y.slotGet(m, i)))
		}
		return r
	case *MapV:
		y, _ := b.(*MapV)
		return m.T.Bool(x == y)
	case *ChanV:
		y, _ := b.(*ChanV)
		return m.T.Bool(x == y)
	case Slice:
		// only comparison with nil is legal
		y := b.(Slice)
		return m.T.Bool((x.a == nil) == (y.a == nil))
	case *Closure:
		return m.T.Bool(b != nil)
	case *ssa.Function:
		return m.T.Bool(b != nil)
	case nil:
		return m.T.Bool(b == nil)
	}
	panic(unsupported("valEq of %T", a))
}

func typeString(t types.Type) string {
	if t == nil {
		return "<nil>"
	}
	return types.TypeString(t, nil)
}
