package symex

import (
	"fmt"
	"go/token"
	"go/types"

	"golang.org/x/tools/go/ssa"

	"verif/engine/internal/term"
)

func (th *Thread) unop(fr *frame, in *ssa.UnOp) Value {
	m := th.m
	T := m.T
	x := th.get(fr, in.X)
	switch in.Op {
	case token.MUL: // load
		p := x.(Ptr)
		m.accessPtr(th, p, false)
		v := m.load(p)
		// views through unsafe casts between string and []byte
		switch vv := v.(type) {
		case Slice:
			if isString(in.Type()) {
				return Str{a: vv.a, off: vv.off, len: vv.len}
			}
		case Str:
			if _, ok := in.Type().Underlying().(*types.Slice); ok {
				return Slice{a: vv.a, off: vv.off, len: vv.len, cap: vv.len}
			}
		}
		return v
	case token.SUB:
		t := x.(*term.Term)
		if isFloat(in.Type()) {
			return T.FNeg(t)
		}
		return T.Neg(t)
	case token.NOT:
		return T.Not(x.(*term.Term))
	case token.XOR:
		return T.BNot(x.(*term.Term))
	case token.ARROW:
		v, ok := th.chanRecv(x.(*ChanV))
		if in.CommaOk {
			return Tuple{v, T.Bool(ok)}
		}
		return v
	}
	panic(unsupported("unop %v", in.Op))
}

// shiftCount normalises a shift count to the width of the shifted value.
func (th *Thread) shiftCount(w uint8, y *term.Term, yt types.Type) *term.Term {
	T := th.m.T
	if isSigned(yt) && !y.IsConst() {
		neg, _ := y.KnownBits()
		if neg&(uint64(1)<<(y.W-1)) == 0 {
			th.m.obligation("panic", T.SLe(T.Const(y.W, 0), y), "panic: negative shift amount", th.where())
		}
	}
	if y.W == w {
		return y
	}
	if y.W < w {
		return T.ZExt(w, y)
	}
	if y.IsConst() {
		if y.Val >= uint64(w) {
			return T.Const(w, uint64(w))
		}
		return T.Const(w, y.Val)
	}
	big := T.ULe(T.Const(y.W, uint64(w)), y)
	return T.Ite(big, T.Const(w, uint64(w)), T.Extract(w-1, 0, y))
}

func (th *Thread) binop(op token.Token, xt types.Type, xv, yv Value, yt types.Type) Value {
	m := th.m
	T := m.T
	switch op {
	case token.EQL:
		return m.valEq(xv, yv)
	case token.NEQ:
		return T.Not(m.valEq(xv, yv))
	}
	if isString(xt) {
		a, b := xv.(Str), yv.(Str)
		switch op {
		case token.ADD:
			return m.strConcat(a, b)
		case token.LSS:
			return m.strLess(a, b)
		case token.GTR:
			return m.strLess(b, a)
		case token.LEQ:
			return T.Not(m.strLess(b, a))
		case token.GEQ:
			return T.Not(m.strLess(a, b))
		}
		panic(unsupported("string binop %v", op))
	}
	x, ok1 := xv.(*term.Term)
	y, ok2 := yv.(*term.Term)
	if !ok1 || !ok2 {
		panic(unsupported("binop %v on %T,%T", op, xv, yv))
	}
	if isBool(xt) {
		switch op {
		case token.AND, token.LAND:
			return T.And(x, y)
		case token.OR, token.LOR:
			return T.Or(x, y)
		}
		panic(unsupported("bool binop %v", op))
	}
	if isFloat(xt) {
		switch op {
		case token.ADD:
			return T.FBin(term.OpFAdd, x, y)
		case token.SUB:
			return T.FBin(term.OpFSub, x, y)
		case token.MUL:
			return T.FBin(term.OpFMul, x, y)
		case token.QUO:
			return T.FBin(term.OpFDiv, x, y)
		case token.LSS:
			return T.FCmp(term.OpFLt, x, y)
		case token.LEQ:
			return T.FCmp(term.OpFLe, x, y)
		case token.GTR:
			return T.FCmp(term.OpFLt, y, x)
		case token.GEQ:
			return T.FCmp(term.OpFLe, y, x)
		}
		panic(unsupported("float binop %v", op))
	}
	signed := isSigned(xt)
	switch op {
	case token.ADD:
		return T.Add(x, y)
	case token.SUB:
		return T.Sub(x, y)
	case token.MUL:
		return T.Mul(x, y)
	case token.QUO, token.REM:
		if y.IsConst() {
			if y.Val == 0 {
				m.panicPath("integer divide by zero")
			}
		} else {
			m.obligation("panic", T.Not(T.Eq(y, T.Const(y.W, 0))), "panic: integer divide by zero", th.where())
		}
		switch {
		case op == token.QUO && signed:
			return T.SDiv(x, y)
		case op == token.QUO:
			return T.UDiv(x, y)
		case signed:
			return T.SRem(x, y)
		default:
			return T.URem(x, y)
		}
	case token.AND:
		return T.BAnd(x, y)
	case token.OR:
		return T.BOr(x, y)
	case token.XOR:
		return T.BXor(x, y)
	case token.AND_NOT:
		return T.BAnd(x, T.BNot(y))
	case token.SHL:
		return T.Shl(x, th.shiftCount(x.W, y, yt))
	case token.SHR:
		c := th.shiftCount(x.W, y, yt)
		if signed {
			return T.AShr(x, c)
		}
		return T.LShr(x, c)
	case token.LSS:
		if signed {
			return T.SLt(x, y)
		}
		return T.ULt(x, y)
	case token.LEQ:
		if signed {
			return T.SLe(x, y)
		}
		return T.ULe(x, y)
	case token.GTR:
		if signed {
			return T.SLt(y, x)
		}
		return T.ULt(y, x)
	case token.GEQ:
		if signed {
			return T.SLe(y, x)
		}
		return T.ULe(y, x)
	}
	panic(unsupported("binop %v", op))
}

func (th *Thread) convert(src, dst types.Type, x Value) Value {
	m := th.m
	T := m.T
	su, du := src.Underlying(), dst.Underlying()
	// pointers and unsafe.Pointer: identity
	if _, ok := x.(Ptr); ok {
		if b, ok := du.(*types.Basic); ok && b.Kind() == types.Uintptr {
			panic(unsupported("pointer to uintptr conversion"))
		}
		return x
	}
	if db, ok := du.(*types.Basic); ok {
		if sb, ok := su.(*types.Basic); ok {
			switch {
			case db.Info()&types.IsString != 0 && sb.Info()&types.IsString != 0:
				return x
			case db.Info()&types.IsString != 0 && sb.Info()&types.IsInteger != 0:
				t := x.(*term.Term)
				if t.IsConst() && t.Val < 0x80 {
					return m.constString(string(rune(t.Val)))
				}
				panic(unsupported("integer to string conversion"))
			case db.Info()&types.IsNumeric != 0 && sb.Info()&types.IsNumeric != 0:
				t := x.(*term.Term)
				dw, _ := bvWidth(dst)
				sf, df := sb.Info()&types.IsFloat != 0, db.Info()&types.IsFloat != 0
				switch {
				case sf && df:
					return T.FConv(term.OpFToF, dw, t)
				case sf:
					if db.Info()&types.IsUnsigned != 0 {
						return T.FConv(term.OpFToUI, dw, t)
					}
					return T.FConv(term.OpFToSI, dw, t)
				case df:
					if sb.Info()&types.IsUnsigned != 0 {
						return T.FConv(term.OpUIToF, dw, t)
					}
					return T.FConv(term.OpSIToF, dw, t)
				}
				if dw <= t.W {
					return T.ZExt(dw, t) // truncates
				}
				if sb.Info()&types.IsUnsigned != 0 {
					return T.ZExt(dw, t)
				}
				return T.SExt(dw, t)
			case db.Kind() == types.UnsafePointer:
				return x
			}
		}
		// []byte -> string
		if db.Info()&types.IsString != 0 {
			if s, ok := x.(Slice); ok {
				if s.len == 0 {
					return Str{}
				}
				m.accessArr(th, s.a, false)
				return Str{a: m.copyBytes(s.a, s.off, s.len), len: s.len}
			}
		}
	}
	if ds, ok := du.(*types.Slice); ok {
		if s, ok := x.(Str); ok {
			if b, ok := ds.Elem().Underlying().(*types.Basic); ok && b.Kind() == types.Uint8 {
				if s.len == 0 {
					return Slice{a: m.newArray(types.Typ[types.Uint8], 0)}
				}
				return Slice{a: m.copyBytes(s.a, s.off, s.len), len: s.len, cap: s.len}
			}
		}
	}
	panic(unsupported("conversion %v -> %v", src, dst))
}

// ---------------------------------------------------------------------------------------
// builtins

func growCap(oldCap, newLen int) int {
	newcap := oldCap
	double := newcap + newcap
	if newLen > double {
		return newLen
	}
	if oldCap < 256 {
		if double == 0 {
			return newLen
		}
		return double
	}
	for newcap < newLen {
		newcap += (newcap + 3*256) / 4
	}
	return newcap
}

func (th *Thread) builtin(b *ssa.Builtin, args []Value, site ssa.Instruction) Value {
	m := th.m
	T := m.T
	switch b.Name() {
	case "len":
		switch x := args[0].(type) {
		case Slice:
			return T.Const(64, uint64(x.len))
		case Str:
			return T.Const(64, uint64(x.len))
		case *MapV:
			if x == nil {
				return T.Const(64, 0)
			}
			m.access(th, x, false)
			return T.Const(64, uint64(len(x.keys)))
		case *ChanV:
			if x == nil {
				return T.Const(64, 0)
			}
			return T.Const(64, uint64(len(x.buf)))
		case Ptr:
			return T.Const(64, uint64(m.loadRef(x).(*ArrayV).n))
		case *ArrayV:
			return T.Const(64, uint64(x.n))
		}
	case "cap":
		switch x := args[0].(type) {
		case Slice:
			return T.Const(64, uint64(x.cap))
		case *ChanV:
			return T.Const(64, uint64(x.cap))
		case Ptr:
			return T.Const(64, uint64(m.loadRef(x).(*ArrayV).n))
		case *ArrayV:
			return T.Const(64, uint64(x.n))
		}
	case "append":
		s := args[0].(Slice)
		var ta *ArrayV
		var toff, tlen int
		switch t := args[1].(type) {
		case Slice:
			ta, toff, tlen = t.a, t.off, t.len
		case Str:
			ta, toff, tlen = t.a, t.off, t.len
		}
		if tlen == 0 {
			return s
		}
		m.accessArr(th, ta, false)
		n := s.len + tlen
		if n <= s.cap {
			m.accessArr(th, s.a, true)
			for i := 0; i < tlen; i++ {
				m.assign(s.a, s.off+s.len+i, ta.slotGet(m, toff+i))
			}
			return Slice{a: s.a, off: s.off, len: n, cap: s.cap}
		}
		nc := growCap(s.cap, n)
		elem := ta.elem
		if s.a != nil {
			elem = s.a.elem
		} else if call, ok := site.(*ssa.Call); ok {
			elem = call.Type().Underlying().(*types.Slice).Elem()
		}
		arr := m.newArray(elem, nc)
		if s.a != nil {
			m.accessArr(th, s.a, false)
			for i := 0; i < s.len; i++ {
				m.assign(arr, i, s.a.slotGet(m, s.off+i))
			}
		}
		for i := 0; i < tlen; i++ {
			m.assign(arr, s.len+i, ta.slotGet(m, toff+i))
		}
		return Slice{a: arr, len: n, cap: nc}
	case "copy":
		d := args[0].(Slice)
		var sa *ArrayV
		var soff, slen int
		switch t := args[1].(type) {
		case Slice:
			sa, soff, slen = t.a, t.off, t.len
		case Str:
			sa, soff, slen = t.a, t.off, t.len
		}
		n := d.len
		if slen < n {
			n = slen
		}
		if n == 0 {
			return T.Const(64, 0)
		}
		m.accessArr(th, sa, false)
		m.accessArr(th, d.a, true)
		if d.a == sa && d.off > soff {
			for i := n - 1; i >= 0; i-- {
				m.assign(d.a, d.off+i, sa.slotGet(m, soff+i))
			}
		} else if !(d.a == sa && d.off == soff) {
			// snapshot first when overlapping forward is harmless
			for i := 0; i < n; i++ {
				m.assign(d.a, d.off+i, sa.slotGet(m, soff+i))
			}
		}
		return T.Const(64, uint64(n))
	case "delete":
		th.mapDelete(args[0], args[1])
		return nil
	case "min", "max":
		r := args[0].(*term.Term)
		var call *ssa.Call
		if c, ok := site.(*ssa.Call); ok {
			call = c
		}
		for _, a := range args[1:] {
			y := a.(*term.Term)
			var lt *term.Term
			if call != nil && isSigned(call.Type()) {
				lt = T.SLt(y, r)
			} else {
				lt = T.ULt(y, r)
			}
			if b.Name() == "max" {
				lt = T.Not(T.Or(lt, T.Eq(y, r)))
			}
			r = T.Ite(lt, y, r)
		}
		return r
	case "print", "println":
		return nil
	case "recover":
		return Iface{}
	case "panic":
		m.panicPath("explicit panic: " + th.describe(args[0]))
	case "close":
		c := args[0].(*ChanV)
		m.side[closedKey{c}] = true
		return nil
	case "clear":
		switch x := args[0].(type) {
		case *MapV:
			if x != nil {
				x.keys, x.vals = nil, nil
			}
		case Slice:
			for i := 0; i < x.len; i++ {
				m.assign(x.a, x.off+i, m.zero(x.a.elem))
			}
		}
		return nil
	case "ssa:wrapnilchk":
		if p, ok := args[0].(Ptr); ok && p.c == nil {
			m.panicPath("value method called using nil pointer")
		}
		return args[0]
	}
	panic(unsupported("builtin %s on %T", b.Name(), args[0]))
}

type closedKey struct{ c *ChanV }

// ---------------------------------------------------------------------------------------
// channels (blocking is delegated to the scheduler)

func (th *Thread) chanSend(c *ChanV, v Value) {
	m := th.m
	if c == nil {
		m.blockForever(th, "send on nil channel")
	}
	if m.side[closedKey{c}] != nil {
		m.panicPath("send on closed channel")
	}
	m.waitUntil(th, fmt.Sprintf("chan send #%d", c.id), func() bool { return len(c.buf) < c.cap || (c.cap == 0 && m.side[recvWaitKey{c}] != nil && len(c.buf) == 0) })
	c.buf = append(c.buf, m.copyVal(v))
	m.hbRelease(th, c)
}

type recvWaitKey struct{ c *ChanV }

func (th *Thread) chanRecv(c *ChanV) (Value, bool) {
	m := th.m
	if c == nil {
		m.blockForever(th, "receive from nil channel")
	}
	if c.cap == 0 {
		m.side[recvWaitKey{c}] = true
	}
	m.waitUntil(th, fmt.Sprintf("chan recv #%d", c.id), func() bool { return len(c.buf) > 0 || m.side[closedKey{c}] != nil })
	if c.cap == 0 {
		delete(m.side, recvWaitKey{c})
	}
	if len(c.buf) > 0 {
		v := c.buf[0]
		c.buf = c.buf[1:]
		m.hbAcquire(th, c)
		return v, true
	}
	return m.zero(c.elem), false
}

func (th *Thread) selectOp(fr *frame, in *ssa.Select) Value {
	m := th.m
	T := m.T
	type st struct {
		c    *ChanV
		send bool
		v    Value
	}
	var states []st
	for _, s := range in.States {
		x := st{c: th.get(fr, s.Chan).(*ChanV), send: s.Dir == types.SendOnly}
		if x.send {
			x.v = th.get(fr, s.Send)
		}
		states = append(states, x)
	}
	ready := func() int {
		var rs []int
		for i, s := range states {
			if s.c == nil {
				continue
			}
			if s.send {
				if len(s.c.buf) < s.c.cap {
					rs = append(rs, i)
				}
			} else if len(s.c.buf) > 0 || m.side[closedKey{s.c}] != nil {
				rs = append(rs, i)
			}
		}
		if len(rs) == 0 {
			return -1
		}
		// Go picks any ready case: a decision
		return rs[m.choose("select", len(rs))]
	}
	anyReady := func() bool {
		for _, s := range states {
			if s.c == nil {
				continue
			}
			if s.send && len(s.c.buf) < s.c.cap {
				return true
			}
			if !s.send && (len(s.c.buf) > 0 || m.side[closedKey{s.c}] != nil) {
				return true
			}
		}
		return false
	}
	idx := -1
	if anyReady() {
		idx = ready()
	} else if in.Blocking {
		m.waitUntil(th, "select", anyReady)
		idx = ready()
	}
	res := Tuple{T.Const(64, uint64(int64(idx))), T.False}
	var recvs []Value
	for i, s := range states {
		if s.send {
			continue
		}
		var v Value = m.zero(s.c.elemOrNil(m, in, i))
		if i == idx {
			var ok bool
			v, ok = th.chanRecv(s.c)
			res[1] = T.Bool(ok)
		}
		recvs = append(recvs, v)
	}
	if idx >= 0 && states[idx].send {
		th.chanSend(states[idx].c, states[idx].v)
	}
	return append(res, recvs...)
}

func (c *ChanV) elemOrNil(m *Machine, in *ssa.Select, i int) types.Type {
	return in.States[i].Chan.Type().Underlying().(*types.Chan).Elem()
}
