package symex

import (
	"fmt"
	"os"
	"sync"
	"go/token"
	"go/types"
	"strings"

	"golang.org/x/tools/go/ssa"

	"verif/engine/internal/smt"
	"verif/engine/internal/term"
)

// Decision is one nondeterministic choice on a path.
type Decision struct {
	Kind   string
	N      int // number of options
	Chosen int
	Val    uint64 // concretization guess (Kind "cz")
	Model  term.Model // a model of the path condition right after this decision (nil = unknown)
}

// Input is a solver-visible harness input.
type Input struct {
	Name string // base name given by the harness
	Var  string // SMT variable name (unique)
	W    uint8
	T    *term.Term
	// for choice inputs (forked, concrete)
	Choice bool
	Value  uint64
}

type Obs struct {
	Label string
	Kind  string // "u64", "bool", "str"
	V     Value
}

type knownRec struct {
	id   string
	cond *term.Term
}

// Violation describes a failed obligation together with a model.
type Violation struct {
	Harness   string
	Kind      string // "assert", "panic", "deadlock", "race", "unwind"
	Msg       string
	Site      string
	Inputs    map[string][]uint64 // per base name, in call order
	Decisions []Decision
	Schedule  []int
	Sched     [][3]int // per scheduling point: thread at the point, kind (0 yield, 1 block, 2 exit), thread chosen
	Known     []string // known-finding ids whose region contains this violation ("" region = unlisted)
	Unlisted  bool     // true when a model outside every known region exists
	Params    map[string]int
}

type PathStatus int

const (
	PathDone PathStatus = iota
	PathInfeasible
	PathViolation
	PathInconclusive
	PathUnsupported
)

var debugModel = os.Getenv("VERIF_DEBUG_MODEL") != ""

type pathEnd struct {
	status PathStatus
	msg    string
}

// Machine executes one path.
type Machine struct {
	P  *Program
	W  *Worker
	T  *term.Table
	S  *smt.Solver
	H  *HarnessRun
	pc []*term.Term

	model *term.Evaluator // valid model of pc, or nil

	prefix    []Decision
	cursor    int
	decisions []Decision

	nextID     int
	strConsts  map[string]*ArrayV
	globals    map[*ssa.Global]*Cell
	inputs     []*Input
	inputCount map[string]int
	observes   []Obs
	known      []knownRec
	steps      int64
	side       map[interface{}]interface{} // engine-side state of modelled objects (mutexes, pools, files)

	status     PathStatus
	endMsg     string
	violation  *Violation
	asserts    int // property assertions reached with a feasible path
	obligQ     int
	inconcl    []string
	initDone   bool
	threads    []*Thread
	cur        *Thread
	schedule   []int
	preempts   int
	yieldCount int
	poolSeq    int
	lastNow    *term.Term
	schedPos   int
	schedTrace [][3]int
	proved     map[*term.Term]bool // conditions implied by the path condition (which only grows)
	doneCh     chan struct{}
	wg         sync.WaitGroup
	aborting   bool
	syncVC     map[interface{}][]int
	shadows    map[interface{}]*shadow
	funcs      map[*ssa.Function]int
	stubs      map[*ssa.Function]int
}

func (m *Machine) inPrefix() bool { return m.cursor < len(m.prefix) }

func (m *Machine) end(st PathStatus, msg string) {
	panic(pathEnd{st, msg})
}

func (m *Machine) addPC(c *term.Term) {
	if c.IsTrue() {
		return
	}
	m.pc = append(m.pc, c)
}

// establishModel queries the solver for a model of the current path condition.
func (m *Machine) establishModel() {
	res, mod := m.S.Check(m.pc, nil, true)
	m.H.countFeas(res)
	switch res {
	case smt.Unsat:
		m.end(PathInfeasible, "")
	case smt.Sat:
		m.model = term.NewEvaluator(mod)
	default:
		m.model = nil
	}
}

// decide takes a nondeterministic choice among n options.
func (m *Machine) decide(kind string, n int, prefer int) (choice int, forcedLast bool) {
	if m.cursor < len(m.prefix) {
		d := m.prefix[m.cursor]
		if d.Kind != kind {
			m.end(PathInconclusive, fmt.Sprintf("engine: replay divergence: expected %s decision, got %s", d.Kind, kind))
		}
		m.cursor++
		m.decisions = append(m.decisions, d)
		return d.Chosen, m.cursor == len(m.prefix)
	}
	m.cursor++
	d := Decision{Kind: kind, N: n, Chosen: prefer}
	if kind != "br" && m.model != nil {
		d.Model = m.model.M // alternatives of a concrete choice keep the same path condition
	}
	m.decisions = append(m.decisions, d)
	if len(m.decisions) > m.H.MaxDecisions {
		m.end(PathInconclusive, fmt.Sprintf("more than %d decisions on one path", m.H.MaxDecisions))
	}
	return prefer, false
}

// afterPrefix installs a model once the replayed prefix has been consumed.
func (m *Machine) afterPrefix() {
	d := m.decisions[len(m.decisions)-1]
	if debugModel {
		fmt.Fprintf(os.Stderr, "PREFIX-END len=%d last=%s n=%d c=%d model=%v\n", len(m.prefix), d.Kind, d.N, d.Chosen, d.Model)
	}
	if d.Model != nil {
		m.model = term.NewEvaluator(d.Model)
		return
	}
	m.establishModel()
}

// choose forks over n concrete options (no path-condition effect).
func (m *Machine) choose(kind string, n int) int {
	if n <= 1 {
		return 0
	}
	c, last := m.decide(kind, n, 0)
	if last {
		m.afterPrefix()
	}
	return c
}

// branch decides a symbolic condition.
func (m *Machine) branch(cond *term.Term) bool {
	if cond.IsConst() {
		return cond.Val != 0
	}
	if m.inPrefix() {
		n := m.prefix[m.cursor].N
		c, last := m.decide("br", n, 0)
		if n > 1 {
			if c == 1 {
				m.addPC(cond)
			} else {
				m.addPC(m.T.Not(cond))
			}
		} else if c == 1 {
			m.proved[cond] = true
		} else {
			m.proved[m.T.Not(cond)] = true
		}
		if last {
			m.afterPrefix()
		}
		return c == 1
	}
	if m.proved[cond] {
		m.decide("br", 1, 1)
		return true
	}
	if m.proved[m.T.Not(cond)] {
		m.decide("br", 1, 0)
		return false
	}
	if m.model != nil {
		v := m.model.Bool(cond)
		side, other, c := cond, m.T.Not(cond), 1
		if !v {
			side, other, c = other, cond, 0
		}
		if debugModel {
			r0, _ := m.S.Check(m.pc, []*term.Term{side}, false)
			if r0 == smt.Unsat {
				panic(fmt.Sprintf("engine: stale model: side %v unsat; decisions=%d prefix=%d lastdec=%+v", v, len(m.decisions), len(m.prefix), m.decisions[len(m.decisions)-1]))
			}
		}
		// is the other side feasible as well?
		res, mod := m.S.Check(m.pc, []*term.Term{other}, true)
		m.H.countFeas(res)
		if debugModel {
			fmt.Fprintf(os.Stderr, "BR %s v=%v other=%v at %s\n", term.Dump(cond, 5), v, res, m.cur.where())
		}
		if res == smt.Unsat {
			if debugModel {
				r1, _ := smt.OneShot("z3", 20000, m.pc, []*term.Term{other})
				if r1 != smt.Unsat {
					fmt.Fprintf(os.Stderr, "MISMATCH: incremental unsat, oneshot %v for other=%s v=%v\n", r1, term.Dump(other, 8), v)
					for _, c := range m.pc {
						fmt.Fprintf(os.Stderr, "   pc: %s\n", term.Dump(c, 6))
					}
				}
			}
			m.decide("br", 1, c) // implied by the path condition: not a fork
			m.proved[side] = true
			return v
		}
		m.decide("br", 2, c)
		m.decisions[len(m.decisions)-1].Model = mod
		m.addPC(side)
		return v
	}
	// no model: ask the solver about the true side
	res, mod := m.S.Check(m.pc, []*term.Term{cond}, true)
	m.H.countFeas(res)
	if debugModel {
		fmt.Fprintf(os.Stderr, "BR-nomodel %s true-side=%v at %s\n", term.Dump(cond, 5), res, m.cur.where())
	}
	switch res {
	case smt.Sat:
		m.model = term.NewEvaluator(mod)
		res2, mod2 := m.S.Check(m.pc, []*term.Term{m.T.Not(cond)}, true)
		m.H.countFeas(res2)
		if res2 == smt.Unsat {
			m.decide("br", 1, 1)
			return true
		}
		m.decide("br", 2, 1)
		m.decisions[len(m.decisions)-1].Model = mod2
		m.addPC(cond)
		return true
	case smt.Unsat:
		// only the false side is possible; not a fork
		m.decide("br", 1, 0)
		return false
	}
	m.decide("br", 2, 1)
	m.addPC(cond)
	return true
}

// assume adds a constraint; the path ends if it is infeasible.
func (m *Machine) assume(c *term.Term) {
	if c.IsTrue() {
		return
	}
	if c.IsFalse() {
		m.end(PathInfeasible, "")
	}
	m.addPC(c)
	if m.inPrefix() {
		return
	}
	if m.model != nil && m.model.Bool(c) {
		return
	}
	m.establishModel()
}

// obligation checks that cond holds on every input of this path; returns normally if so.
func (m *Machine) obligation(kind string, cond *term.Term, msg string, site string) {
	if cond.IsTrue() {
		return
	}
	if m.inPrefix() {
		// checked by the path this one was forked from
		m.proved[cond] = true
		return
	}
	if m.proved[cond] {
		if debugModel {
			fmt.Fprintf(os.Stderr, "OB-cached %s %s\n", msg, term.Dump(cond, 4))
		}
		return
	}
	if debugModel {
		fmt.Fprintf(os.Stderr, "OB %s %s\n", msg, term.Dump(cond, 4))
	}
	m.obligQ++
	neg := m.T.Not(cond)
	var mod *term.Evaluator
	if m.model != nil && m.model.Bool(neg) {
		mod = m.model
	} else {
		res, mm := m.S.Check(m.pc, []*term.Term{neg}, true)
		m.H.countOblig(res)
		switch res {
		case smt.Unsat:
			m.proved[cond] = true
			return
		case smt.Unknown:
			m.H.noteInconclusive(fmt.Sprintf("%s: solver answered unknown for obligation %q at %s (%s)", m.H.Name, msg, site, m.S.LastError))
			// continue under the assumption that it holds
			m.assume(cond)
			return
		}
		mod = term.NewEvaluator(mm)
	}
	m.reportViolation(kind, msg, site, neg, mod)
	// continue on the side where the obligation holds (if any)
	if kind == "assert" && m.H.ContinueAfterViolation {
		m.assume(cond)
		return
	}
	m.end(PathViolation, msg)
}

// reportViolation classifies a violation against the known-finding regions and records it.
func (m *Machine) reportViolation(kind, msg, site string, neg *term.Term, mod *term.Evaluator) {
	v := &Violation{Harness: m.H.Name, Kind: kind, Msg: msg, Site: site, Params: m.H.Params}
	// regions whose condition can be true on this path
	var active []knownRec
	for _, k := range m.known {
		if !k.cond.IsFalse() {
			active = append(active, k)
		}
	}
	useMod := mod
	if len(active) > 0 {
		// is there a violating input outside every known region?
		extra := []*term.Term{neg}
		outside := true
		for _, k := range active {
			if k.cond.IsTrue() {
				outside = false
			}
			extra = append(extra, m.T.Not(k.cond))
		}
		if outside {
			allFalse := true
			for _, k := range active {
				if mod.Bool(k.cond) {
					allFalse = false
				}
			}
			if allFalse {
				v.Unlisted = true
			} else {
				res, mm := m.S.Check(m.pc, extra, true)
				m.H.countOblig(res)
				if res == smt.Sat {
					v.Unlisted = true
					useMod = term.NewEvaluator(mm)
				} else if res == smt.Unknown {
					m.H.noteInconclusive(fmt.Sprintf("%s: unknown while separating known-finding region at %s", m.H.Name, site))
				}
			}
		}
		if !v.Unlisted {
			for _, k := range active {
				if useMod.Bool(k.cond) {
					v.Known = append(v.Known, k.id)
				}
			}
		}
	} else {
		v.Unlisted = true
	}
	if debugModel {
		fmt.Fprintf(os.Stderr, "VIOLATION %s %s at %s\n", kind, msg, site)
		for _, c := range m.pc {
			fmt.Fprintf(os.Stderr, "   pc: %s\n", term.Dump(c, 6))
		}
		for _, d := range m.decisions {
			fmt.Fprintf(os.Stderr, "   dec: %s n=%d c=%d\n", d.Kind, d.N, d.Chosen)
		}
	}
	v.Inputs = m.inputValues(useMod)
	v.Decisions = append([]Decision(nil), m.decisions...)
	v.Schedule = append([]int(nil), m.schedule...)
	v.Sched = append([][3]int(nil), m.schedTrace...)
	m.violation = v
	m.H.addViolation(v)
}

func (m *Machine) inputValues(mod *term.Evaluator) map[string][]uint64 {
	out := map[string][]uint64{}
	for _, in := range m.inputs {
		var v uint64
		if in.Choice {
			v = in.Value
		} else if mod != nil {
			v = mod.Eval(in.T)
		}
		out[in.Name] = append(out[in.Name], v)
	}
	return out
}

// panicPath ends the path with a Go run-time panic (always a violation unless expected).
func (m *Machine) panicPath(msg string) {
	site := ""
	if m.cur != nil {
		site = m.cur.where()
	}
	if m.inPrefix() {
		// cannot happen: the parent would have ended here
		m.end(PathInconclusive, "panic inside replayed prefix: "+msg)
	}
	mod := m.model
	if mod == nil {
		res, mm := m.S.Check(m.pc, nil, true)
		m.H.countOblig(res)
		if res == smt.Unsat {
			m.end(PathInfeasible, "")
		}
		if res == smt.Sat {
			mod = term.NewEvaluator(mm)
		} else {
			m.H.noteInconclusive("unknown on panic path: " + msg)
			m.end(PathInconclusive, msg)
		}
	}
	m.reportViolation("panic", "panic: "+msg, site, m.T.True, mod)
	m.end(PathViolation, msg)
}

// newInput creates a fresh symbolic input of width w.
func (m *Machine) newInput(name string, w uint8) *term.Term {
	k := m.inputCount[name]
	m.inputCount[name] = k + 1
	vn := sanitize(name)
	if k > 0 {
		vn = fmt.Sprintf("%s!%d", vn, k)
	}
	vn = "i_" + vn
	var t *term.Term
	if m.H.Fixed != nil {
		// engine-side replay of a model: every input is a constant
		var v uint64
		if arr := m.H.Fixed[name]; k < len(arr) {
			v = arr[k]
		}
		ww := w
		if ww == 0 {
			t = m.T.Bool(v&1 == 1)
		} else {
			t = m.T.Const(ww, v)
		}
		m.inputs = append(m.inputs, &Input{Name: name, Var: vn, W: w, T: t})
		return t
	}
	t = m.T.Var(vn, w)
	m.inputs = append(m.inputs, &Input{Name: name, Var: vn, W: w, T: t})
	return t
}

func (m *Machine) newChoiceInput(name string, v uint64) {
	m.inputCount[name]++
	m.inputs = append(m.inputs, &Input{Name: name, Choice: true, Value: v})
}

func sanitize(s string) string {
	var sb strings.Builder
	for _, r := range s {
		if (r >= 'a' && r <= 'z') || (r >= 'A' && r <= 'Z') || (r >= '0' && r <= '9') || r == '_' {
			sb.WriteRune(r)
		} else {
			sb.WriteByte('_')
		}
	}
	return sb.String()
}

// global returns the cell of a package-level variable.
func (m *Machine) global(g *ssa.Global) Ptr {
	c, ok := m.globals[g]
	if !ok {
		t := g.Type().(*types.Pointer).Elem()
		c = &Cell{v: m.zero(t), id: m.newID()}
		if ov, ok := m.P.globalOverride(m, g); ok {
			c.v = ov
		}
		m.globals[g] = c
	}
	return Ptr{c: c}
}

func (m *Machine) posString(pos token.Pos) string {
	if !pos.IsValid() {
		return "?"
	}
	p := m.P.Fset.Position(pos)
	f := p.Filename
	if i := strings.LastIndex(f, "/"); i >= 0 {
		// keep last two components
		if j := strings.LastIndex(f[:i], "/"); j >= 0 {
			f = f[j+1:]
		}
	}
	return fmt.Sprintf("%s:%d", f, p.Line)
}
