package symex

import (
	"fmt"
	"go/types"
	"strings"

	"golang.org/x/tools/go/ssa"

	"verif/engine/internal/term"
)

// Intrinsic implements a function inside the engine.
type Intrinsic func(th *Thread, fn *ssa.Function, args []Value) Value

// NativeFunc is a callable engine-side function value.
type NativeFunc struct {
	name string
	fn   func(th *Thread, args []Value) Value
}

type mutexState struct {
	locked  bool
	owner   int
	readers int
	wwait   int
	rOwners map[int]int
}

type mutexKey struct{ s *StructV }
type mutexRKey struct{ s *StructV }

func (m *Machine) mutexOf(p Value) (*mutexState, *StructV) {
	ptr := p.(Ptr)
	if ptr.c == nil {
		m.panicPath("nil mutex")
	}
	s := m.loadRef(ptr).(*StructV)
	st, _ := m.side[mutexKey{s}].(*mutexState)
	if st == nil {
		st = &mutexState{owner: -1, rOwners: map[int]int{}}
		m.side[mutexKey{s}] = st
	}
	return st, s
}

// poolState models sync.Pool as seen by one P without GC: a private slot that Put fills first and
// Get empties first, and a LIFO shared list.
type hashApp struct {
	in  Str
	out *term.Term
}

type poolState struct {
	private Value
	hasPriv bool
	items   []Value
}
type onceState struct{ done bool }
type wgState struct{ n int64 }
type atomicValKey struct{ s *StructV }

func constStr(th *Thread, v Value) string {
	s, ok := th.m.concreteString(v.(Str))
	if !ok {
		panic(unsupported("vnd name must be a constant string"))
	}
	return s
}

func fieldIndex(t types.Type, name string) int {
	st := t.Underlying().(*types.Struct)
	for i := 0; i < st.NumFields(); i++ {
		if st.Field(i).Name() == name {
			return i
		}
	}
	panic("engine: no field " + name + " in " + t.String())
}

func (th *Thread) atomicSlot(p Value) Ptr {
	ptr := p.(Ptr)
	if ptr.c == nil {
		th.m.panicPath("nil pointer in atomic operation")
	}
	return ptr
}

func (th *Thread) atomicSync(p Ptr) {
	k := slotKey{p.c, p.i}
	th.m.hbAcquire(th, k)
	th.m.hbRelease(th, k)
}


// unlockPoint: pseudo yield point 11 - a scheduling point right after a lock is released, so that
// code which keeps using what the lock protected after releasing it is interleaved with the next
// holder. Off unless the harness instance enables bit 11 of yieldMask (it multiplies schedules).
func (m *Machine) unlockPoint(th *Thread) {
	if m.H.Yields != nil && m.H.Yields[11] {
		m.yield(th, "after unlock")
	}
}

func buildIntrinsics() map[string]Intrinsic {
	I := map[string]Intrinsic{}
	T := func(th *Thread) *term.Table { return th.m.T }

	// ----- harness API -----
	for _, w := range []uint8{8, 16, 32, 64} {
		w := w
		I[fmt.Sprintf("vndU%d", w)] = func(th *Thread, fn *ssa.Function, a []Value) Value {
			return th.m.newInput(constStr(th, a[0]), w)
		}
	}
	I["vndBool"] = func(th *Thread, fn *ssa.Function, a []Value) Value {
		return th.m.newInput(constStr(th, a[0]), 0)
	}
	I["vndChoice"] = func(th *Thread, fn *ssa.Function, a []Value) Value {
		n := th.concreteInt(a[1].(*term.Term), "vndChoice n")
		name := constStr(th, a[0])
		var c int
		if fx := th.m.H.Fixed; fx != nil {
			if arr := fx[name]; th.m.inputCount[name] < len(arr) {
				c = int(arr[th.m.inputCount[name]])
			}
			if c >= n {
				c = 0
			}
		} else {
			c = th.m.choose("choice", n)
		}
		th.m.newChoiceInput(name, uint64(c))
		return T(th).Const(64, uint64(c))
	}
	I["vndParam"] = func(th *Thread, fn *ssa.Function, a []Value) Value {
		name := constStr(th, a[0])
		v, ok := th.m.H.Params[name]
		if !ok {
			panic(unsupported("harness parameter %q not set", name))
		}
		return T(th).Const(64, uint64(int64(v)))
	}
	I["vndAssume"] = func(th *Thread, fn *ssa.Function, a []Value) Value {
		th.m.assume(a[0].(*term.Term))
		return nil
	}
	I["vndAssert"] = func(th *Thread, fn *ssa.Function, a []Value) Value {
		m := th.m
		c := a[0].(*term.Term)
		if !m.inPrefix() {
			m.asserts++
		}
		m.obligation("assert", c, constStr(th, a[1]), th.callerWhere())
		return nil
	}
	I["vndCover"] = func(th *Thread, fn *ssa.Function, a []Value) Value {
		m := th.m
		label := constStr(th, a[0])
		c := a[1].(*term.Term)
		if m.inPrefix() || c.IsFalse() || m.H.covered(label) {
			return nil
		}
		if c.IsTrue() || (m.model != nil && m.model.Bool(c)) {
			m.H.cover(label)
			return nil
		}
		res, _ := m.S.Check(m.pc, []*term.Term{c}, false)
		m.H.countFeas(res)
		if res == 0 {
			m.H.cover(label)
		}
		return nil
	}
	I["vndKnown"] = func(th *Thread, fn *ssa.Function, a []Value) Value {
		th.m.known = append(th.m.known, knownRec{constStr(th, a[0]), a[1].(*term.Term)})
		return nil
	}
	I["vndObserve"] = func(th *Thread, fn *ssa.Function, a []Value) Value {
		th.m.observes = append(th.m.observes, Obs{constStr(th, a[0]), "u64", a[1]})
		return nil
	}
	I["vndObserveBool"] = func(th *Thread, fn *ssa.Function, a []Value) Value {
		th.m.observes = append(th.m.observes, Obs{constStr(th, a[0]), "bool", a[1]})
		return nil
	}
	I["vndObserveStr"] = func(th *Thread, fn *ssa.Function, a []Value) Value {
		s := a[1].(Str)
		// freeze: the bytes may be overwritten later
		if s.len > 0 {
			s = Str{a: th.m.copyBytes(s.a, s.off, s.len), len: s.len}
		}
		th.m.observes = append(th.m.observes, Obs{constStr(th, a[0]), "str", s})
		return nil
	}
	I["vndBytes"] = func(th *Thread, fn *ssa.Function, a []Value) Value {
		m := th.m
		name := constStr(th, a[0])
		n := th.concreteInt(a[1].(*term.Term), "vndBytes n")
		arr := m.newArray(types.Typ[types.Uint8], n)
		for i := 0; i < n; i++ {
			arr.conc[i] = m.newInput(name, 8)
		}
		return Slice{a: arr, len: n, cap: n}
	}
	I["vndString"] = func(th *Thread, fn *ssa.Function, a []Value) Value {
		m := th.m
		name := constStr(th, a[0])
		n := th.concreteInt(a[1].(*term.Term), "vndString n")
		if n == 0 {
			return Str{}
		}
		arr := m.newArray(types.Typ[types.Uint8], n)
		for i := 0; i < n; i++ {
			arr.conc[i] = m.newInput(name, 8)
		}
		return Str{a: arr, len: n}
	}
	I["vndGo"] = func(th *Thread, fn *ssa.Function, a []Value) Value {
		t := th.m.spawn(th, a[0], nil)
		return T(th).Const(64, uint64(t.id))
	}
	I["vndYield"] = func(th *Thread, fn *ssa.Function, a []Value) Value {
		th.m.yield(th, "vndYield")
		return nil
	}
	I["vndJoin"] = func(th *Thread, fn *ssa.Function, a []Value) Value {
		m := th.m
		id := th.concreteInt(a[0].(*term.Term), "thread id")
		o := m.threads[id]
		m.waitUntil(th, fmt.Sprintf("join thread %d", id), func() bool { return o.done })
		m.hbJoin(th, o)
		return nil
	}
	I["vndSymbolic"] = func(th *Thread, fn *ssa.Function, a []Value) Value { return T(th).True }
	I["verifYield"] = func(th *Thread, fn *ssa.Function, a []Value) Value {
		p := a[0].(*term.Term)
		if th.m.H.yieldEnabled(int(p.Val)) {
			th.m.yield(th, fmt.Sprintf("hook %d", p.Val))
		}
		return nil
	}

	// ----- unsafe views -----
	strToBytes := func(th *Thread, fn *ssa.Function, a []Value) Value {
		s := a[0].(Str)
		return Slice{a: s.a, off: s.off, len: s.len, cap: s.len}
	}
	I["github.com/kelindar/column/commit.toBytes"] = strToBytes
	I["github.com/kelindar/column.s2b"] = strToBytes
	I["github.com/kelindar/iostream.toBytes"] = strToBytes
	I["github.com/kelindar/iostream.binaryToString"] = func(th *Thread, fn *ssa.Function, a []Value) Value {
		s := th.m.load(a[0].(Ptr)).(Slice)
		return Str{a: s.a, off: s.off, len: s.len}
	}
	I["github.com/kelindar/column.b2s"] = func(th *Thread, fn *ssa.Function, a []Value) Value {
		s := th.m.load(a[0].(Ptr)).(Slice)
		return Str{a: s.a, off: s.off, len: s.len}
	}
	I["strings.Clone"] = func(th *Thread, fn *ssa.Function, a []Value) Value {
		s := a[0].(Str)
		if s.len == 0 {
			return Str{}
		}
		return Str{a: th.m.copyBytes(s.a, s.off, s.len), len: s.len}
	}

	// ----- xxh3.Hash: an arbitrary function of (length, bytes) that is injective on its low 32
	// bits over the strings of one path (colliding enum strings are outside the claim, see DESIGN) -----
	I["github.com/zeebo/xxh3.Hash"] = func(th *Thread, fn *ssa.Function, a []Value) Value {
		m := th.m
		t := m.T
		s := a[0].(Slice)
		in := Str{a: s.a, off: s.off, len: s.len}
		if in.len > 0 {
			in = Str{a: m.copyBytes(s.a, s.off, s.len), len: s.len}
		}
		apps, _ := m.side["xxh3"].(*[]hashApp)
		if apps == nil {
			apps = &[]hashApp{}
			m.side["xxh3"] = apps
		}
		// an application on syntactically equal bytes returns the same term
		for _, p := range *apps {
			if eq := m.strEq(p.in, in); eq.IsTrue() {
				return p.out
			}
		}
		h := m.newInput("xxh3", 64)
		for _, p := range *apps {
			eq := m.strEq(p.in, in)
			same := t.Eq(t.Extract(31, 0, p.out), t.Extract(31, 0, h))
			// equal inputs <=> equal (truncated) hashes, and equal inputs => equal hashes
			m.assume(t.And(t.Eq(eq, same), t.Implies(eq, t.Eq(p.out, h))))
		}
		*apps = append(*apps, hashApp{in, h})
		return h
	}

	// ----- math/bits -----
	I["math/bits.OnesCount64"] = func(th *Thread, fn *ssa.Function, a []Value) Value {
		return T(th).Popcount(a[0].(*term.Term))
	}
	I["math/bits.TrailingZeros64"] = func(th *Thread, fn *ssa.Function, a []Value) Value {
		return T(th).TrailingZeros(a[0].(*term.Term))
	}
	I["math/bits.LeadingZeros64"] = func(th *Thread, fn *ssa.Function, a []Value) Value {
		return T(th).LeadingZeros(a[0].(*term.Term))
	}
	I["math/bits.Len64"] = func(th *Thread, fn *ssa.Function, a []Value) Value {
		t := T(th)
		return t.Sub(t.Const(64, 64), t.LeadingZeros(a[0].(*term.Term)))
	}
	I["math/bits.TrailingZeros32"] = func(th *Thread, fn *ssa.Function, a []Value) Value {
		return T(th).TrailingZeros(a[0].(*term.Term))
	}
	I["math.Float64bits"] = func(th *Thread, fn *ssa.Function, a []Value) Value { return a[0] }
	I["math.Float64frombits"] = func(th *Thread, fn *ssa.Function, a []Value) Value { return a[0] }
	I["math.Float32bits"] = func(th *Thread, fn *ssa.Function, a []Value) Value { return a[0] }
	I["math.Float32frombits"] = func(th *Thread, fn *ssa.Function, a []Value) Value { return a[0] }

	// ----- sync -----
	I["(*sync.Mutex).Lock"] = func(th *Thread, fn *ssa.Function, a []Value) Value {
		m := th.m
		st, s := m.mutexOf(a[0])
		m.waitUntil(th, fmt.Sprintf("Mutex.Lock #%d", s.id), func() bool { return !st.locked })
		st.locked, st.owner = true, th.id
		m.hbAcquire(th, mutexKey{s})
		return nil
	}
	I["(*sync.Mutex).TryLock"] = func(th *Thread, fn *ssa.Function, a []Value) Value {
		m := th.m
		st, s := m.mutexOf(a[0])
		if st.locked {
			return m.T.False
		}
		st.locked, st.owner = true, th.id
		m.hbAcquire(th, mutexKey{s})
		return m.T.True
	}
	I["(*sync.Mutex).Unlock"] = func(th *Thread, fn *ssa.Function, a []Value) Value {
		m := th.m
		st, s := m.mutexOf(a[0])
		if !st.locked {
			m.panicPath("sync: unlock of unlocked mutex")
		}
		st.locked = false
		m.hbRelease(th, mutexKey{s})
		m.unlockPoint(th)
		return nil
	}
	I["(*sync.RWMutex).Lock"] = func(th *Thread, fn *ssa.Function, a []Value) Value {
		m := th.m
		st, s := m.mutexOf(a[0])
		st.wwait++
		m.waitUntil(th, fmt.Sprintf("RWMutex.Lock #%d", s.id), func() bool { return !st.locked && st.readers == 0 })
		st.wwait--
		st.locked, st.owner = true, th.id
		m.hbAcquire(th, mutexKey{s})
		m.hbAcquire(th, mutexRKey{s})
		return nil
	}
	I["(*sync.RWMutex).Unlock"] = func(th *Thread, fn *ssa.Function, a []Value) Value {
		m := th.m
		st, s := m.mutexOf(a[0])
		if !st.locked {
			m.panicPath("sync: Unlock of unlocked RWMutex")
		}
		st.locked = false
		m.hbRelease(th, mutexKey{s})
		m.unlockPoint(th)
		return nil
	}
	I["(*sync.RWMutex).RLock"] = func(th *Thread, fn *ssa.Function, a []Value) Value {
		m := th.m
		st, s := m.mutexOf(a[0])
		m.waitUntil(th, fmt.Sprintf("RWMutex.RLock #%d", s.id), func() bool { return !st.locked && st.wwait == 0 })
		st.readers++
		st.rOwners[th.id]++
		m.hbAcquire(th, mutexKey{s})
		return nil
	}
	I["(*sync.RWMutex).RUnlock"] = func(th *Thread, fn *ssa.Function, a []Value) Value {
		m := th.m
		st, s := m.mutexOf(a[0])
		if st.readers == 0 {
			m.panicPath("sync: RUnlock of unlocked RWMutex")
		}
		st.readers--
		st.rOwners[th.id]--
		m.hbRelease(th, mutexRKey{s})
		m.unlockPoint(th)
		return nil
	}
	I["(*sync.Pool).Get"] = func(th *Thread, fn *ssa.Function, a []Value) Value {
		m := th.m
		s := m.loadRef(a[0].(Ptr)).(*StructV)
		st, _ := m.side[s].(*poolState)
		if st == nil {
			st = &poolState{}
			m.side[s] = st
		}
		if m.H.Params["poolFresh"] == 0 {
			if st.hasPriv {
				v := st.private
				st.private, st.hasPriv = nil, false
				m.hbAcquire(th, s)
				return v
			}
			if n := len(st.items); n > 0 {
				v := st.items[n-1]
				st.items = st.items[:n-1]
				m.hbAcquire(th, s)
				return v
			}
		}
		newFn := s.f[fieldIndex(fn.Signature.Recv().Type().(*types.Pointer).Elem(), "New")]
		if newFn == nil {
			return Iface{}
		}
		return th.callValue(newFn, nil, nil)
	}
	I["(*sync.Pool).Put"] = func(th *Thread, fn *ssa.Function, a []Value) Value {
		m := th.m
		s := m.loadRef(a[0].(Ptr)).(*StructV)
		st, _ := m.side[s].(*poolState)
		if st == nil {
			st = &poolState{}
			m.side[s] = st
		}
		if !st.hasPriv {
			st.private, st.hasPriv = a[1], true
		} else {
			st.items = append(st.items, a[1])
		}
		m.hbRelease(th, s)
		return nil
	}
	I["(*sync.Once).Do"] = func(th *Thread, fn *ssa.Function, a []Value) Value {
		m := th.m
		s := m.loadRef(a[0].(Ptr)).(*StructV)
		st, _ := m.side[s].(*onceState)
		if st == nil {
			st = &onceState{}
			m.side[s] = st
		}
		if !st.done {
			st.done = true
			th.callValue(a[1], nil, nil)
			m.hbRelease(th, s)
		} else {
			m.hbAcquire(th, s)
		}
		return nil
	}
	I["(*sync.WaitGroup).Add"] = func(th *Thread, fn *ssa.Function, a []Value) Value {
		m := th.m
		s := m.loadRef(a[0].(Ptr)).(*StructV)
		st, _ := m.side[s].(*wgState)
		if st == nil {
			st = &wgState{}
			m.side[s] = st
		}
		st.n += int64(th.concreteInt(a[1].(*term.Term), "WaitGroup delta"))
		if st.n < 0 {
			m.panicPath("sync: negative WaitGroup counter")
		}
		m.hbRelease(th, s)
		return nil
	}
	I["(*sync.WaitGroup).Done"] = func(th *Thread, fn *ssa.Function, a []Value) Value {
		m := th.m
		s := m.loadRef(a[0].(Ptr)).(*StructV)
		st, _ := m.side[s].(*wgState)
		if st == nil || st.n <= 0 {
			m.panicPath("sync: negative WaitGroup counter")
		}
		st.n--
		m.hbRelease(th, s)
		return nil
	}
	I["(*sync.WaitGroup).Wait"] = func(th *Thread, fn *ssa.Function, a []Value) Value {
		m := th.m
		s := m.loadRef(a[0].(Ptr)).(*StructV)
		st, _ := m.side[s].(*wgState)
		if st != nil {
			m.waitUntil(th, "WaitGroup.Wait", func() bool { return st.n == 0 })
		}
		m.hbAcquire(th, s)
		return nil
	}

	// ----- sync/atomic -----
	for _, ty := range []string{"Int32", "Int64", "Uint32", "Uint64", "Uintptr"} {
		I["sync/atomic.Add"+ty] = func(th *Thread, fn *ssa.Function, a []Value) Value {
			p := th.atomicSlot(a[0])
			th.atomicSync(p)
			v := th.m.T.Add(th.m.load(p).(*term.Term), a[1].(*term.Term))
			th.m.store(p, v)
			return v
		}
		I["sync/atomic.Load"+ty] = func(th *Thread, fn *ssa.Function, a []Value) Value {
			p := th.atomicSlot(a[0])
			th.atomicSync(p)
			return th.m.load(p)
		}
		I["sync/atomic.Store"+ty] = func(th *Thread, fn *ssa.Function, a []Value) Value {
			p := th.atomicSlot(a[0])
			th.atomicSync(p)
			th.m.store(p, a[1])
			return nil
		}
		I["sync/atomic.Swap"+ty] = func(th *Thread, fn *ssa.Function, a []Value) Value {
			p := th.atomicSlot(a[0])
			th.atomicSync(p)
			old := th.m.load(p)
			th.m.store(p, a[1])
			return old
		}
		I["sync/atomic.CompareAndSwap"+ty] = func(th *Thread, fn *ssa.Function, a []Value) Value {
			p := th.atomicSlot(a[0])
			th.atomicSync(p)
			eq := th.m.valEq(th.m.load(p), a[1])
			if th.m.branch(eq) {
				th.m.store(p, a[2])
				return th.m.T.True
			}
			return th.m.T.False
		}
	}
	I["sync/atomic.LoadPointer"] = I["sync/atomic.LoadUint64"]
	I["sync/atomic.StorePointer"] = I["sync/atomic.StoreUint64"]
	I["sync/atomic.SwapPointer"] = I["sync/atomic.SwapUint64"]
	I["sync/atomic.CompareAndSwapPointer"] = I["sync/atomic.CompareAndSwapUint64"]
	I["(*sync/atomic.Value).Load"] = func(th *Thread, fn *ssa.Function, a []Value) Value {
		m := th.m
		s := m.loadRef(a[0].(Ptr)).(*StructV)
		m.hbAcquire(th, atomicValKey{s})
		if v, ok := m.side[atomicValKey{s}]; ok {
			return v.(Iface)
		}
		return Iface{}
	}
	I["(*sync/atomic.Value).Store"] = func(th *Thread, fn *ssa.Function, a []Value) Value {
		m := th.m
		s := m.loadRef(a[0].(Ptr)).(*StructV)
		m.side[atomicValKey{s}] = a[1].(Iface)
		m.hbRelease(th, atomicValKey{s})
		return nil
	}

	// ----- context / goroutines the harnesses do not want -----
	I["context.Background"] = func(th *Thread, fn *ssa.Function, a []Value) Value { return Iface{} }
	I["context.WithCancel"] = func(th *Thread, fn *ssa.Function, a []Value) Value {
		cancel := &NativeFunc{name: "cancel", fn: func(th *Thread, args []Value) Value { return nil }}
		return Tuple{Iface{}, cancel}
	}

	// ----- formatting: opaque -----
	I["fmt.Errorf"] = func(th *Thread, fn *ssa.Function, a []Value) Value {
		f := th.m.P.funcByName("errors", "New")
		return th.callFn(f, []Value{th.m.constString("fmt.Errorf")}, nil, nil)
	}
	I["fmt.Sprintf"] = func(th *Thread, fn *ssa.Function, a []Value) Value { return th.m.constString("<sprintf>") }
	I["fmt.Sprint"] = I["fmt.Sprintf"]
	I["fmt.Println"] = func(th *Thread, fn *ssa.Function, a []Value) Value { return Tuple{th.m.T.Const(64, 0), Iface{}} }
	I["fmt.Printf"] = I["fmt.Println"]

	// ----- time (nanoseconds since the epoch live in Time.ext; wall stays 0) -----
	I["time.Now"] = func(th *Thread, fn *ssa.Function, a []Value) Value {
		m := th.m
		tt := fn.Signature.Results().At(0).Type()
		s := m.zero(tt).(*StructV)
		s.f[fieldIndex(tt, "ext")] = m.now(th)
		return s
	}
	I["(time.Time).UnixNano"] = func(th *Thread, fn *ssa.Function, a []Value) Value {
		return a[0].(*StructV).f[1]
	}
	mkTime := func(th *Thread, tt types.Type, ns *term.Term) Value {
		s := th.m.zero(tt).(*StructV)
		s.f[fieldIndex(tt, "ext")] = ns
		return s
	}
	ext := func(v Value) *term.Term { return v.(*StructV).f[1].(*term.Term) }
	I["time.Unix"] = func(th *Thread, fn *ssa.Function, a []Value) Value {
		t := th.m.T
		sec, nsec := a[0].(*term.Term), a[1].(*term.Term)
		return mkTime(th, fn.Signature.Results().At(0).Type(), t.Add(t.Mul(sec, t.Const(64, 1_000_000_000)), nsec))
	}
	I["(time.Time).After"] = func(th *Thread, fn *ssa.Function, a []Value) Value { return th.m.T.SLt(ext(a[1]), ext(a[0])) }
	I["(time.Time).Before"] = func(th *Thread, fn *ssa.Function, a []Value) Value { return th.m.T.SLt(ext(a[0]), ext(a[1])) }
	I["(time.Time).Equal"] = func(th *Thread, fn *ssa.Function, a []Value) Value { return th.m.T.Eq(ext(a[0]), ext(a[1])) }
	I["(time.Time).IsZero"] = func(th *Thread, fn *ssa.Function, a []Value) Value {
		return th.m.T.Eq(ext(a[0]), th.m.T.Const(64, 0))
	}
	I["(time.Time).Add"] = func(th *Thread, fn *ssa.Function, a []Value) Value {
		return mkTime(th, fn.Signature.Results().At(0).Type(), th.m.T.Add(ext(a[0]), a[1].(*term.Term)))
	}
	I["(time.Time).Sub"] = func(th *Thread, fn *ssa.Function, a []Value) Value { return th.m.T.Sub(ext(a[0]), ext(a[1])) }
	I["time.Since"] = func(th *Thread, fn *ssa.Function, a []Value) Value { return th.m.T.Sub(th.m.now(th), ext(a[0])) }
	I["time.NewTicker"] = func(th *Thread, fn *ssa.Function, a []Value) Value {
		m := th.m
		pt := fn.Signature.Results().At(0).Type().(*types.Pointer).Elem()
		p := m.newCell(pt)
		s := m.loadRef(p).(*StructV)
		tt := pt.Underlying().(*types.Struct).Field(fieldIndex(pt, "C")).Type().Underlying().(*types.Chan).Elem()
		n := m.H.Params["ticks"]
		ch := &ChanV{cap: n + 1, id: m.newID(), elem: tt}
		for i := 0; i < n; i++ {
			ch.buf = append(ch.buf, m.zero(tt))
		}
		s.f[fieldIndex(pt, "C")] = ch
		return p
	}
	I["(*time.Ticker).Stop"] = func(th *Thread, fn *ssa.Function, a []Value) Value { return nil }
	return I
}

func (th *Thread) callerWhere() string { return th.where() }

// now returns the current time of the modelled clock: a fixed instant unless the harness asks
// for a symbolic clock (param "clock"=1), in which case every call returns an arbitrary instant
// that is not earlier than the previous one and lies inside a range where int64 nanoseconds do not
// overflow under the additions the code performs.
func (m *Machine) now(th *Thread) *term.Term {
	if m.H.Params["clock"] != 1 || !m.initDone {
		return m.T.Const(64, 1_700_000_000_000_000_000)
	}
	t := m.newInput("now", 64)
	T := m.T
	lo, hi := T.Const(64, 1_000_000_000_000_000_000), T.Const(64, 4_000_000_000_000_000_000)
	m.assume(T.And(T.SLe(lo, t), T.SLe(t, hi)))
	if m.lastNow != nil {
		m.assume(T.SLe(m.lastNow, t))
	}
	m.lastNow = t
	return t
}

func intrinsicName(fn *ssa.Function) string {
	if o := fn.Origin(); o != nil {
		fn = o
	}
	n := fn.String()
	if fn.Pkg != nil && strings.HasPrefix(fn.Name(), "vnd") {
		return fn.Name()
	}
	if fn.Name() == "verifYield" {
		return "verifYield"
	}
	return n
}
