package symex

import (
	"fmt"
	"strings"
	"runtime/debug"
	"sync"

	"golang.org/x/tools/go/ssa"
)

type threadAbort struct{}

// runPath executes the harness function on a fresh machine state and returns when the path ends.
func (m *Machine) runPath(entry *ssa.Function) {
	m.doneCh = make(chan struct{})
	th := m.newThread()
	m.cur = th
	m.wg.Add(1)
	go th.main(func() {
		m.runInits(th)
		th.callFn(entry, nil, nil, nil)
	})
	th.resume <- true
	<-m.doneCh
	m.wg.Wait()
}

func (m *Machine) newThread() *Thread {
	th := &Thread{m: m, id: len(m.threads), resume: make(chan bool, 1)}
	th.vc = make([]int, len(m.threads)+1)
	m.threads = append(m.threads, th)
	return th
}

func protect(f func()) (r interface{}, panicked bool) {
	defer func() {
		if !panicked {
			return
		}
		r = recover()
	}()
	panicked = true
	f()
	panicked = false
	return nil, false
}

func (th *Thread) main(body func()) {
	m := th.m
	defer m.wg.Done()
	if !<-th.resume {
		th.done = true
		return
	}
	r, bad := protect(body)
	if !bad {
		r, bad = protect(func() {
			th.done = true
			m.threadExited(th)
		})
		if !bad {
			return
		}
	}
	switch e := r.(type) {
	case threadAbort:
		th.done = true
	case pathEnd:
		m.finish(th, e.status, e.msg)
	case unsupportedErr:
		m.finish(th, PathUnsupported, e.msg+" at "+th.where()+"\n"+th.stack())
	default:
		m.finish(th, PathUnsupported, fmt.Sprintf("engine panic: %v at %s\n%s\n%s", r, th.where(), th.stack(), debug.Stack()))
	}
}

// finish ends the path from thread th: every other thread is aborted.
func (m *Machine) finish(th *Thread, st PathStatus, msg string) {
	th.done = true
	m.status = st
	m.endMsg = msg
	m.aborting = true
	for _, o := range m.threads {
		if o != th && !o.done {
			o.resume <- false
		}
	}
	close(m.doneCh)
}

func (m *Machine) threadExited(th *Thread) {
	m.hbExit(th)
	if th.id == 0 {
		// the harness returned: the path is complete
		m.finish(th, PathDone, "")
		return
	}
	next := m.pickNext(th, false, "exit")
	if next == nil {
		// nobody can run: main is blocked forever
		m.deadlock(th)
		return
	}
	m.cur = next
	next.resume <- true
}

// runnable reports the threads that can make progress.
func (m *Machine) runnable() []*Thread {
	var r []*Thread
	for _, t := range m.threads {
		if t.done {
			continue
		}
		if t.waitCond != nil && !t.waitCond() {
			continue
		}
		r = append(r, t)
	}
	return r
}

// pickNext chooses the thread to run next at a scheduling point. self may continue when
// selfRunnable. The choice is a decision.
func schedKind(what string) int {
	switch {
	case what == "exit":
		return 2
	case what == "vndYield" || strings.HasPrefix(what, "hook"):
		return 0
	}
	return 1
}

func (m *Machine) pickNext(self *Thread, selfRunnable bool, what string) *Thread {
	next := m.pickNext0(self, selfRunnable, what)
	if next != nil {
		m.schedTrace = append(m.schedTrace, [3]int{self.id, schedKind(what), next.id})
	}
	return next
}

func (m *Machine) pickNext0(self *Thread, selfRunnable bool, what string) *Thread {
	var opts []*Thread
	for _, t := range m.runnable() {
		if t == self && !selfRunnable {
			continue
		}
		opts = append(opts, t)
	}
	if len(opts) == 0 {
		return nil
	}
	prefer := 0
	for i, t := range opts {
		if t == self {
			prefer = i
		}
	}
	if fs := m.H.FixedSched; fs != nil {
		// engine-side replay: follow the recorded schedule
		if m.schedPos < len(fs) {
			want := fs[m.schedPos]
			m.schedPos++
			for _, t := range opts {
				if t.id == want {
					m.schedule = append(m.schedule, t.id)
					return t
				}
			}
		}
		if selfRunnable {
			m.schedule = append(m.schedule, self.id)
			return self
		}
		m.schedule = append(m.schedule, opts[0].id)
		return opts[0]
	}
	if selfRunnable && m.preempts >= m.H.Preemptions {
		m.schedule = append(m.schedule, self.id)
		return self
	}
	c := 0
	if len(opts) > 1 {
		c = m.choose("sched", len(opts))
		// option 0 is always "prefer" so that the default schedule is run-to-completion
		if c == 0 {
			c = prefer
		} else if c <= prefer {
			c = c - 1
		}
	}
	next := opts[c]
	if selfRunnable && next != self {
		m.preempts++
	}
	m.schedule = append(m.schedule, next.id)
	return next
}

func (m *Machine) switchTo(self, next *Thread) {
	if next == self {
		return
	}
	m.cur = next
	next.resume <- true
	if !<-self.resume {
		panic(threadAbort{})
	}
	m.cur = self
}

// yield is a scheduling point at which the current thread could continue.
func (m *Machine) yield(th *Thread, what string) {
	if len(m.threads) < 2 {
		return
	}
	m.yieldCount++
	next := m.pickNext(th, true, what)
	m.switchTo(th, next)
}

// waitUntil blocks the thread until cond holds.
func (m *Machine) waitUntil(th *Thread, what string, cond func() bool) {
	for !cond() {
		th.waitCond = cond
		th.waitWhat = what
		next := m.pickNext(th, false, what)
		if next == nil {
			m.deadlock(th)
		}
		m.switchTo(th, next)
	}
	th.waitCond = nil
}

func (m *Machine) blockForever(th *Thread, what string) {
	m.waitUntil(th, what, func() bool { return false })
}

func (m *Machine) deadlock(th *Thread) {
	msg := "deadlock: "
	for _, t := range m.threads {
		if !t.done {
			msg += fmt.Sprintf("[thread %d waits for %s at %s] ", t.id, t.waitWhat, t.where())
		}
	}
	if m.inPrefix() {
		m.end(PathInconclusive, "deadlock inside replayed prefix")
	}
	mod := m.model
	if mod == nil {
		m.establishModel()
		mod = m.model
	}
	if mod == nil {
		m.H.noteInconclusive("unknown on deadlock path")
		m.end(PathInconclusive, msg)
	}
	m.reportViolation("deadlock", msg, th.where(), m.T.True, mod)
	if v := m.violation; v != nil && len(v.Known) == 0 && !m.H.DeadlockUnlisted {
		// a deadlock inside a region the harness marked keeps that classification; otherwise it is
		// unlisted
	}
	m.end(PathViolation, msg)
}

// spawn starts a new thread running fnv(args...). The new thread is runnable but does not run
// until a scheduling point picks it.
func (m *Machine) spawn(parent *Thread, fnv Value, args []Value) *Thread {
	th := m.newThread()
	m.hbSpawn(parent, th)
	m.wg.Add(1)
	go th.main(func() {
		th.callValue(fnv, args, nil)
	})
	return th
}

// ---------------------------------------------------------------------------------------
// happens-before bookkeeping (vector clocks)

type shadow struct {
	wThread int
	wClock  int
	wSite   string
	reads   map[int]int // thread -> clock
	rSite   map[int]string
}

func (m *Machine) hbSpawn(parent, child *Thread) {
	for len(parent.vc) < len(m.threads) {
		parent.vc = append(parent.vc, 0)
	}
	child.vc = make([]int, len(m.threads))
	copy(child.vc, parent.vc)
	child.vc[child.id] = 1
	parent.vc[parent.id]++
}

func (m *Machine) hbExit(th *Thread) {
	m.hbRelease(th, exitKey{th.id})
}

type exitKey struct{ id int }

func (m *Machine) hbJoin(th *Thread, other *Thread) {
	m.hbAcquire(th, exitKey{other.id})
}

// hbRelease publishes the thread's clock on a synchronisation object.
func (m *Machine) hbRelease(th *Thread, obj interface{}) {
	if len(m.threads) < 2 {
		return
	}
	c := m.syncVC[obj]
	c = joinVC(c, th.vc)
	m.syncVC[obj] = c
	for len(th.vc) <= th.id {
		th.vc = append(th.vc, 0)
	}
	th.vc[th.id]++
}

// hbAcquire joins the object's clock into the thread's.
func (m *Machine) hbAcquire(th *Thread, obj interface{}) {
	if len(m.threads) < 2 {
		return
	}
	if c, ok := m.syncVC[obj]; ok {
		th.vc = joinVC(th.vc, c)
	}
}

func joinVC(a, b []int) []int {
	n := len(a)
	if len(b) > n {
		n = len(b)
	}
	r := make([]int, n)
	copy(r, a)
	for i, v := range b {
		if v > r[i] {
			r[i] = v
		}
	}
	return r
}

func (th *Thread) clockOf(id int) int {
	if id < len(th.vc) {
		return th.vc[id]
	}
	return 0
}

// access records a read or write of a heap object by the current thread and reports a data race
// when a conflicting access is not ordered by happens-before.
func (m *Machine) access(th *Thread, obj interface{}, write bool) {
	if !m.H.RaceCheck || len(m.threads) < 2 || th == nil || obj == nil {
		return
	}
	if mp, ok := obj.(*MapV); ok && mp != nil && mp.model {
		return
	}
	sh := m.shadows[obj]
	if sh == nil {
		sh = &shadow{wThread: -1, reads: map[int]int{}, rSite: map[int]string{}}
		m.shadows[obj] = sh
	}
	me := th.id
	if sh.wThread >= 0 && sh.wThread != me && sh.wClock > th.clockOf(sh.wThread) {
		m.race(th, sh.wSite, write, true)
	}
	if write {
		for t, c := range sh.reads {
			if t != me && c > th.clockOf(t) {
				m.race(th, sh.rSite[t], true, false)
			}
		}
		sh.wThread, sh.wClock, sh.wSite = me, th.clockOf(me), th.whereRace()
		sh.reads = map[int]int{}
		sh.rSite = map[int]string{}
	} else {
		sh.reads[me] = th.clockOf(me)
		sh.rSite[me] = th.whereRace()
	}
}

func isHarnessFunc(name string) bool {
	if strings.HasPrefix(name, "Verif") || strings.HasPrefix(name, "verif") || strings.HasPrefix(name, "vnd") {
		return true
	}
	return len(name) > 1 && name[0] == 'v' && name[1] >= 'A' && name[1] <= 'Z'
}

// whereRace names an access as "<API entry>><innermost function>@file:line": the innermost frame
// inside the repository under test, prefixed by the outermost repository function below the
// harness (so that the same leaf reached through different operations is told apart).
func (th *Thread) whereRace() string {
	inner, outer := "", ""
	pos := ""
	for f := th.fr; f != nil; f = f.caller {
		if f.instr == nil || f.fn.Pkg == nil || !th.m.P.isRepoPkg(f.fn.Pkg) || strings.HasPrefix(f.fn.Name(), "verifModel") {
			continue
		}
		if inner == "" {
			inner = f.fn.Name()
			pos = th.m.posString(f.instr.Pos())
		}
		if !isHarnessFunc(f.fn.Name()) {
			outer = f.fn.Name()
		}
	}
	if inner == "" {
		return th.where()
	}
	if outer != "" && outer != inner && !isHarnessFunc(inner) {
		return fmt.Sprintf("%s>%s@%s", outer, inner, pos)
	}
	return fmt.Sprintf("%s@%s", inner, pos)
}

func (m *Machine) accessPtr(th *Thread, p Ptr, write bool) {
	if !m.H.RaceCheck || len(m.threads) < 2 || p.c == nil {
		return
	}
	switch c := p.c.(type) {
	case *ArrayV:
		if c.ro {
			return
		}
		if p.sym != nil {
			m.access(th, c, write) // symbolic element: the whole array
			return
		}
		m.access(th, slotKey{p.c, p.i}, write)
	default:
		m.access(th, slotKey{p.c, p.i}, write)
	}
}

type slotKey struct {
	c Container
	i int
}

// accessArr treats an array as one location per 64 elements (coarse on purpose: exact for the
// word-level bitmaps and the value arrays the collection uses, where a writer holds the block).
func (m *Machine) accessArr(th *Thread, a *ArrayV, write bool) {
	if !m.H.RaceCheck || len(m.threads) < 2 || a == nil || a.ro {
		return
	}
	m.access(th, a, write)
}

func (m *Machine) race(th *Thread, otherSite string, write, otherWrite bool) {
	kind := func(w bool) string {
		if w {
			return "write"
		}
		return "read"
	}
	msg := fmt.Sprintf("data race: %s at %s vs %s at %s", kind(write), th.whereRace(), kind(otherWrite), otherSite)
	key := raceKey(th.whereRace(), otherSite)
	if m.H.raceSeen(key) {
		return
	}
	if m.inPrefix() {
		return
	}
	mod := m.model
	if mod == nil {
		m.establishModel()
		mod = m.model
	}
	if mod == nil {
		return
	}
	m.reportViolation("race", msg, key, m.T.True, mod)
	// races are identified by the pair of racing functions (the key known findings are listed by)
	if v := m.violation; v != nil {
		v.Unlisted = false
		v.Known = []string{"KF-race:" + raceFuncKey(th.whereRace(), otherSite)}
	}
	if !m.H.ContinueAfterRace {
		m.end(PathViolation, msg)
	}
}

// raceFuncKey drops positions: "f@file:line | g@file:line" -> "f|g" (sorted).
func raceFuncKey(a, b string) string {
	fa, fb := a, b
	if i := strings.Index(fa, "@"); i >= 0 {
		fa = fa[:i]
	}
	if i := strings.Index(fb, "@"); i >= 0 {
		fb = fb[:i]
	}
	if fa > fb {
		fa, fb = fb, fa
	}
	return fa + "|" + fb
}

func raceKey(a, b string) string {
	if a > b {
		a, b = b, a
	}
	return a + " | " + b
}

var _ = sync.Mutex{}
