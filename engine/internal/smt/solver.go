// Package smt drives one incremental SMT solver process (z3 -in or compatible) and mirrors a path
// condition on its assertion stack.
package smt

import (
	"bufio"
	"os"
	"sync/atomic"
	"fmt"
	"io"
	"os/exec"
	"strconv"
	"strings"
	"time"

	"verif/engine/internal/term"
)

type Result int

const (
	Sat Result = iota
	Unsat
	Unknown
)

func (r Result) String() string { return [...]string{"sat", "unsat", "unknown"}[r] }

// Stats counts what was asked.
type Stats struct {
	Queries  int
	Sat      int
	Unsat    int
	Unknown  int
	Errors    int
	Fallbacks int
	SolverNs  int64
}

type Solver struct {
	Bin       string
	Args      []string
	TimeoutMs int
	cmd       *exec.Cmd
	in        *bufio.Writer
	inRaw     io.WriteCloser
	out       *bufio.Reader
	defs      map[int32]bool // term ids with a define-fun in scope
	decls     map[string]*term.Term
	levels    []level // one per push
	asserted  []*term.Term
	Stats     Stats
	Log        io.Writer // optional transcript
	LastError  string
	FallbackMs int // one-shot retry budget after an incremental "unknown" (0 = no retry)
	// FPUninterpreted prints floating-point operations as uninterpreted functions over their bit
	// patterns (an over-approximation: "unsat" stays valid, "sat" must be confirmed by replay)
	FPUninterpreted bool
}

type level struct {
	defs  []int32
	decls []string
}

// New starts a solver. bin is "z3", "z3-new" or "cvc5".
func New(bin string, timeoutMs int) (*Solver, error) { return NewWith(bin, timeoutMs, false) }

// NewWith starts a solver, optionally abstracting floating point as uninterpreted functions.
func NewWith(bin string, timeoutMs int, fpUF bool) (*Solver, error) {
	s := &Solver{Bin: bin, TimeoutMs: timeoutMs, FPUninterpreted: fpUF}
	return s, s.start()
}

func (s *Solver) start() error {
	var args []string
	switch {
	case strings.HasPrefix(s.Bin, "cvc5"):
		args = []string{"--incremental", "--lang=smt2", "--produce-models", fmt.Sprintf("--tlimit-per=%d", s.TimeoutMs), "--fp-exp"}
	default:
		args = []string{"-in", "-smt2", fmt.Sprintf("-t:%d", s.TimeoutMs)}
	}
	s.cmd = exec.Command(s.Bin, args...)
	w, err := s.cmd.StdinPipe()
	if err != nil {
		return err
	}
	r, err := s.cmd.StdoutPipe()
	if err != nil {
		return err
	}
	s.cmd.Stderr = s.cmd.Stdout
	if err := s.cmd.Start(); err != nil {
		return err
	}
	s.inRaw = w
	s.in = bufio.NewWriterSize(w, 1<<16)
	s.out = bufio.NewReaderSize(r, 1<<16)
	s.defs = map[int32]bool{}
	s.decls = map[string]*term.Term{}
	s.levels = []level{{}}
	s.asserted = nil
	if strings.HasPrefix(s.Bin, "cvc5") {
		s.send("(set-logic ALL)")
	}
	s.send("(set-option :produce-models true)")
	if s.FPUninterpreted {
		for _, w := range []int{32, 64} {
			for _, op := range []string{"fadd", "fsub", "fmul", "fdiv"} {
				s.send(fmt.Sprintf("(declare-fun uf_%s%d ((_ BitVec %d) (_ BitVec %d)) (_ BitVec %d))", op, w, w, w, w))
			}
			for _, op := range []string{"flt", "fle", "feq"} {
				s.send(fmt.Sprintf("(declare-fun uf_%s%d ((_ BitVec %d) (_ BitVec %d)) Bool)", op, w, w, w))
			}
			for _, iw := range []int{8, 16, 32, 64} {
				s.send(fmt.Sprintf("(declare-fun uf_sitof_%d_%d ((_ BitVec %d)) (_ BitVec %d))", iw, w, iw, w))
				s.send(fmt.Sprintf("(declare-fun uf_uitof_%d_%d ((_ BitVec %d)) (_ BitVec %d))", iw, w, iw, w))
				s.send(fmt.Sprintf("(declare-fun uf_ftosi_%d_%d ((_ BitVec %d)) (_ BitVec %d))", w, iw, w, iw))
				s.send(fmt.Sprintf("(declare-fun uf_ftoui_%d_%d ((_ BitVec %d)) (_ BitVec %d))", w, iw, w, iw))
			}
		}
		s.send("(declare-fun uf_ftof_32_64 ((_ BitVec 32)) (_ BitVec 64))")
		s.send("(declare-fun uf_ftof_64_32 ((_ BitVec 64)) (_ BitVec 32))")
	}
	return nil
}

func (s *Solver) Close() {
	if s.cmd != nil {
		s.inRaw.Close()
		s.cmd.Process.Kill()
		s.cmd.Wait()
		s.cmd = nil
	}
}

// Restart kills and restarts the process (after a hang or protocol error).
func (s *Solver) Restart() error {
	s.Close()
	return s.start()
}

func (s *Solver) send(line string) {
	if s.Log != nil {
		fmt.Fprintln(s.Log, line)
	}
	s.in.WriteString(line)
	s.in.WriteByte('\n')
}

func sortOf(x *term.Term) string {
	if x.Arr {
		return fmt.Sprintf("(Array (_ BitVec 64) (_ BitVec %d))", x.W)
	}
	if x.W == 0 {
		return "Bool"
	}
	return fmt.Sprintf("(_ BitVec %d)", x.W)
}

func constStr(x *term.Term) string {
	if x.W == 0 {
		if x.Val != 0 {
			return "true"
		}
		return "false"
	}
	if x.W%4 == 0 {
		return fmt.Sprintf("#x%0*x", int(x.W)/4, x.Val)
	}
	return fmt.Sprintf("#b%0*b", int(x.W), x.Val)
}

func (s *Solver) ref(x *term.Term) string {
	switch x.Op {
	case term.OpConst:
		return constStr(x)
	case term.OpVar:
		return x.Name
	}
	return "t" + strconv.Itoa(int(x.ID))
}

func fpSort(w uint8) string {
	if w == 32 {
		return "8 24"
	}
	return "11 53"
}

func (s *Solver) toFP(x *term.Term) string {
	return fmt.Sprintf("((_ to_fp %s) %s)", fpSort(x.W), s.ref(x))
}

var names = map[term.Op]string{term.OpNot: "not", term.OpAnd: "and", term.OpOr: "or", term.OpIte: "ite", term.OpEq: "=",
	term.OpAdd: "bvadd", term.OpSub: "bvsub", term.OpMul: "bvmul", term.OpUDiv: "bvudiv", term.OpURem: "bvurem",
	term.OpSDiv: "bvsdiv", term.OpSRem: "bvsrem", term.OpBAnd: "bvand", term.OpBOr: "bvor", term.OpBXor: "bvxor",
	term.OpBNot: "bvnot", term.OpNeg: "bvneg", term.OpShl: "bvshl", term.OpLShr: "bvlshr", term.OpAShr: "bvashr",
	term.OpULt: "bvult", term.OpULe: "bvule", term.OpSLt: "bvslt", term.OpSLe: "bvsle", term.OpConcat: "concat",
	term.OpSelect: "select", term.OpStore: "store"}

// ensure emits declarations/definitions for x and everything below it.
func (s *Solver) ensure(x *term.Term) {
	switch x.Op {
	case term.OpConst:
		return
	case term.OpVar:
		if _, ok := s.decls[x.Name]; !ok {
			s.decls[x.Name] = x
			lv := &s.levels[len(s.levels)-1]
			lv.decls = append(lv.decls, x.Name)
			s.send(fmt.Sprintf("(declare-const %s %s)", x.Name, sortOf(x)))
		}
		return
	}
	if s.defs[x.ID] {
		return
	}
	for _, a := range x.Args {
		s.ensure(a)
	}
	var body string
	a := x.Args
	if s.FPUninterpreted && x.Op >= term.OpFAdd && x.Op <= term.OpFToF {
		switch x.Op {
		case term.OpFAdd, term.OpFSub, term.OpFMul, term.OpFDiv:
			n := map[term.Op]string{term.OpFAdd: "fadd", term.OpFSub: "fsub", term.OpFMul: "fmul", term.OpFDiv: "fdiv"}[x.Op]
			body = fmt.Sprintf("(uf_%s%d %s %s)", n, x.W, s.ref(a[0]), s.ref(a[1]))
		case term.OpFLt, term.OpFLe, term.OpFEq:
			n := map[term.Op]string{term.OpFLt: "flt", term.OpFLe: "fle", term.OpFEq: "feq"}[x.Op]
			body = fmt.Sprintf("(uf_%s%d %s %s)", n, a[0].W, s.ref(a[0]), s.ref(a[1]))
		default:
			n := map[term.Op]string{term.OpSIToF: "sitof", term.OpUIToF: "uitof", term.OpFToSI: "ftosi", term.OpFToUI: "ftoui", term.OpFToF: "ftof"}[x.Op]
			body = fmt.Sprintf("(uf_%s_%d_%d %s)", n, a[0].W, x.W, s.ref(a[0]))
		}
		s.defs[x.ID] = true
		lv := &s.levels[len(s.levels)-1]
		lv.defs = append(lv.defs, x.ID)
		s.send(fmt.Sprintf("(define-fun t%d () %s %s)", x.ID, sortOf(x), body))
		return
	}
	switch x.Op {
	case term.OpExtract:
		body = fmt.Sprintf("((_ extract %d %d) %s)", x.Val>>8, x.Val&0xff, s.ref(a[0]))
	case term.OpZExt:
		body = fmt.Sprintf("((_ zero_extend %d) %s)", x.W-a[0].W, s.ref(a[0]))
	case term.OpSExt:
		body = fmt.Sprintf("((_ sign_extend %d) %s)", x.W-a[0].W, s.ref(a[0]))
	case term.OpConstArr:
		body = fmt.Sprintf("((as const %s) %s)", sortOf(x), s.ref(a[0]))
	case term.OpFAdd, term.OpFSub, term.OpFMul, term.OpFDiv:
		op := map[term.Op]string{term.OpFAdd: "fp.add", term.OpFSub: "fp.sub", term.OpFMul: "fp.mul", term.OpFDiv: "fp.div"}[x.Op]
		body = fmt.Sprintf("(fp.to_ieee_bv (%s RNE %s %s))", op, s.toFP(a[0]), s.toFP(a[1]))
	case term.OpFLt:
		body = fmt.Sprintf("(fp.lt %s %s)", s.toFP(a[0]), s.toFP(a[1]))
	case term.OpFLe:
		body = fmt.Sprintf("(fp.leq %s %s)", s.toFP(a[0]), s.toFP(a[1]))
	case term.OpFEq:
		body = fmt.Sprintf("(fp.eq %s %s)", s.toFP(a[0]), s.toFP(a[1]))
	case term.OpSIToF:
		body = fmt.Sprintf("(fp.to_ieee_bv ((_ to_fp %s) RNE %s))", fpSort(x.W), s.ref(a[0]))
	case term.OpUIToF:
		body = fmt.Sprintf("(fp.to_ieee_bv ((_ to_fp_unsigned %s) RNE %s))", fpSort(x.W), s.ref(a[0]))
	case term.OpFToSI:
		body = fmt.Sprintf("((_ fp.to_sbv %d) RTZ %s)", x.W, s.toFP(a[0]))
	case term.OpFToUI:
		body = fmt.Sprintf("((_ fp.to_ubv %d) RTZ %s)", x.W, s.toFP(a[0]))
	case term.OpFToF:
		body = fmt.Sprintf("(fp.to_ieee_bv ((_ to_fp %s) RNE %s))", fpSort(x.W), s.toFP(a[0]))
	default:
		n, ok := names[x.Op]
		if !ok {
			panic(fmt.Sprintf("smt: cannot print op %d", x.Op))
		}
		var sb strings.Builder
		sb.WriteByte('(')
		sb.WriteString(n)
		for _, y := range a {
			sb.WriteByte(' ')
			sb.WriteString(s.ref(y))
		}
		sb.WriteByte(')')
		body = sb.String()
	}
	s.defs[x.ID] = true
	lv := &s.levels[len(s.levels)-1]
	lv.defs = append(lv.defs, x.ID)
	s.send(fmt.Sprintf("(define-fun t%d () %s %s)", x.ID, sortOf(x), body))
}

func (s *Solver) push() {
	s.levels = append(s.levels, level{})
	s.send("(push 1)")
}

func (s *Solver) pop() {
	lv := s.levels[len(s.levels)-1]
	for _, id := range lv.defs {
		delete(s.defs, id)
	}
	for _, n := range lv.decls {
		delete(s.decls, n)
	}
	s.levels = s.levels[:len(s.levels)-1]
	s.send("(pop 1)")
}

func (s *Solver) assert(x *term.Term) {
	s.ensure(x)
	s.send("(assert " + s.ref(x) + ")")
}

// sync makes the solver's assertion stack equal to pc.
func (s *Solver) sync(pc []*term.Term) {
	i := 0
	for i < len(pc) && i < len(s.asserted) && pc[i] == s.asserted[i] {
		i++
	}
	for len(s.asserted) > i {
		s.pop()
		s.asserted = s.asserted[:len(s.asserted)-1]
	}
	for ; i < len(pc); i++ {
		s.push()
		s.assert(pc[i])
		s.asserted = append(s.asserted, pc[i])
	}
}

// Check decides satisfiability of pc ∧ extra. With wantModel, a model of all declared input
// variables is returned on sat.
func (s *Solver) Check(pc []*term.Term, extra []*term.Term, wantModel bool) (Result, term.Model) {
	t0 := time.Now()
	defer func() { s.Stats.SolverNs += int64(time.Since(t0)) }()
	s.Stats.Queries++
	s.sync(pc)
	s.push()
	for _, e := range extra {
		s.assert(e)
	}
	s.send("(check-sat)")
	s.send("(echo \"@@done\")")
	if err := s.in.Flush(); err != nil {
		s.fail("write: " + err.Error())
		return Unknown, nil
	}
	res, ok := s.readResult()
	if !ok && s.FallbackMs <= 0 {
		s.Stats.Unknown++
		return Unknown, nil
	}
	if !ok || (res == Unknown && s.FallbackMs > 0) {
		// the incremental core gave up (or its process was killed by the watchdog / died and has
		// been restarted): ask a fresh process, which uses the full preprocessing pipeline
		// (tactics) instead of the incremental solver
		if ok && s.cmd != nil {
			s.pop()
		}
		s.Stats.Fallbacks++
		r2, m2 := oneShotModel(s.Bin, s.FallbackMs, pc, extra, wantModel, s.FPUninterpreted)
		switch r2 {
		case Sat:
			s.Stats.Sat++
		case Unsat:
			s.Stats.Unsat++
		default:
			s.Stats.Unknown++
		}
		return r2, m2
	}
	var model term.Model
	if res == Sat && wantModel {
		model = s.getModel()
		if model == nil {
			res = Unknown
		}
	}
	if s.cmd != nil {
		s.pop()
	}
	switch res {
	case Sat:
		s.Stats.Sat++
	case Unsat:
		s.Stats.Unsat++
	default:
		s.Stats.Unknown++
	}
	return res, model
}

func (s *Solver) fail(msg string) {
	s.Stats.Errors++
	s.LastError = msg
	s.Restart()
}

func (s *Solver) readResult() (Result, bool) {
	res := Unknown
	got := false
	bad := false
	// watchdog: a solver that ignores its soft timeout is killed (the query counts as unknown)
	proc := s.cmd.Process
	wd := time.AfterFunc(time.Duration(s.TimeoutMs)*time.Millisecond*2+5*time.Second, func() { proc.Kill() })
	defer wd.Stop()
	for {
		line, err := s.out.ReadString('\n')
		if err != nil {
			s.fail("read: " + err.Error())
			return Unknown, false
		}
		line = strings.TrimSpace(line)
		if s.Log != nil {
			fmt.Fprintln(s.Log, "; <- "+line)
		}
		switch {
		case line == "@@done" || line == "\"@@done\"":
			if bad || !got {
				if !got && !bad {
					s.LastError = "no answer"
				}
				s.Stats.Errors++
				// the stack may be inconsistent after an error: restart
				s.Restart()
				return Unknown, false
			}
			return res, true
		case line == "sat":
			res, got = Sat, true
		case line == "unsat":
			res, got = Unsat, true
		case line == "unknown" || line == "timeout":
			res, got = Unknown, true
		case strings.HasPrefix(line, "(error"):
			bad = true
			s.LastError = line
		}
	}
}

func (s *Solver) getModel() term.Model {
	if len(s.decls) == 0 {
		return term.Model{}
	}
	var sb strings.Builder
	sb.WriteString("(get-value (")
	n := 0
	for name, v := range s.decls {
		if v.Arr {
			continue
		}
		sb.WriteString(name)
		sb.WriteByte(' ')
		n++
	}
	sb.WriteString("))")
	if n == 0 {
		return term.Model{}
	}
	s.send(sb.String())
	s.send("(echo \"@@done\")")
	if err := s.in.Flush(); err != nil {
		s.fail("write: " + err.Error())
		return nil
	}
	var text strings.Builder
	for {
		line, err := s.out.ReadString('\n')
		if err != nil {
			s.fail("read: " + err.Error())
			return nil
		}
		tl := strings.TrimSpace(line)
		if tl == "@@done" || tl == "\"@@done\"" {
			break
		}
		text.WriteString(line)
	}
	out := text.String()
	if strings.Contains(out, "(error") {
		s.LastError = out
		s.Stats.Errors++
		return nil
	}
	m := term.Model{}
	// tokens: ( ( name value ) ... )
	toks := strings.Fields(strings.NewReplacer("(", " ( ", ")", " ) ").Replace(out))
	for i := 0; i+3 < len(toks); i++ {
		if toks[i] == "(" && toks[i+1] != "(" && toks[i+3] == ")" {
			name, val := toks[i+1], toks[i+2]
			switch {
			case val == "true":
				m[name] = 1
			case val == "false":
				m[name] = 0
			case strings.HasPrefix(val, "#x"):
				v, _ := strconv.ParseUint(val[2:], 16, 64)
				m[name] = v
			case strings.HasPrefix(val, "#b"):
				v, _ := strconv.ParseUint(val[2:], 2, 64)
				m[name] = v
			}
			i += 3
		}
	}
	return m
}

var dumpSeq int32

func oneShotModel(bin string, timeoutMs int, pc []*term.Term, extra []*term.Term, wantModel bool, fpUF bool) (Result, term.Model) {
	s := &Solver{Bin: bin, TimeoutMs: timeoutMs, FPUninterpreted: fpUF}
	if d := os.Getenv("VERIF_DUMP_HARD"); d != "" {
		n := atomic.AddInt32(&dumpSeq, 1)
		if f, err := os.Create(fmt.Sprintf("%s/hard-%d-%d.smt2", d, os.Getpid(), n)); err == nil {
			s.Log = f
			defer f.Close()
		}
	}
	if err := s.start(); err != nil {
		return Unknown, nil
	}
	defer s.Close()
	for _, p := range pc {
		s.assert(p)
	}
	for _, e := range extra {
		s.assert(e)
	}
	s.send("(check-sat)")
	s.send("(echo \"@@done\")")
	if err := s.in.Flush(); err != nil {
		return Unknown, nil
	}
	r, ok := s.readResult()
	if !ok {
		return Unknown, nil
	}
	if r == Sat && wantModel {
		m := s.getModel()
		if m == nil {
			return Unknown, nil
		}
		return Sat, m
	}
	return r, nil
}

// OneShot decides pc ∧ extra in a fresh process without incremental mode (different tactics);
// used as a second opinion and as a fallback after "unknown".
func OneShot(bin string, timeoutMs int, pc []*term.Term, extra []*term.Term) (Result, string) {
	s := &Solver{Bin: bin, TimeoutMs: timeoutMs}
	if err := s.start(); err != nil {
		return Unknown, err.Error()
	}
	defer s.Close()
	for _, p := range pc {
		s.assert(p)
	}
	for _, e := range extra {
		s.assert(e)
	}
	s.send("(check-sat)")
	s.send("(echo \"@@done\")")
	if err := s.in.Flush(); err != nil {
		return Unknown, err.Error()
	}
	r, ok := s.readResult()
	if !ok {
		return Unknown, s.LastError
	}
	return r, ""
}
