package term

import "sort"

// Bit-slice canonicalisation: a bitwise OR of operands that cannot both be one in any bit
// position (shown by known-bits) and that are built from shifts, extensions, extracts, concats
// and masks is a re-assembly of bit ranges. Such terms are rebuilt in one canonical form
// (concat of maximal pieces), so that encode/decode identities such as
// byte(v>>8)<<8 | byte(v) == v fold to true at construction time instead of costing a query.

type piece struct {
	src   *Term // nil = constant bits
	cval  uint64
	srcLo uint8
	w     uint8
	dstLo uint8
}

const maxPieces = 24

// pieces decomposes x into bit ranges; ok=false when x is not slice-like (then x is one piece).
func (t *Table) pieces(x *Term, depth int) []piece {
	whole := []piece{{src: x, srcLo: 0, w: x.W, dstLo: 0}}
	if depth > 12 {
		return whole
	}
	switch x.Op {
	case OpConst:
		if x.Val == 0 {
			return nil
		}
		return []piece{{cval: x.Val, w: x.W, dstLo: 0}}
	case OpExtract:
		lo := uint8(x.Val)
		in := t.pieces(x.Args[0], depth+1)
		return clip(in, lo, x.W)
	case OpZExt:
		return t.pieces(x.Args[0], depth+1)
	case OpConcat:
		lo := t.pieces(x.Args[1], depth+1)
		hi := shiftPieces(t.pieces(x.Args[0], depth+1), int(x.Args[1].W), x.W)
		return append(append([]piece{}, lo...), hi...)
	case OpShl:
		if x.Args[1].IsConst() && x.Args[1].Val < uint64(x.W) {
			return shiftPieces(t.pieces(x.Args[0], depth+1), int(x.Args[1].Val), x.W)
		}
	case OpLShr:
		if x.Args[1].IsConst() && x.Args[1].Val < uint64(x.W) {
			return shiftPieces(t.pieces(x.Args[0], depth+1), -int(x.Args[1].Val), x.W)
		}
	case OpBAnd:
		if x.Args[1].IsConst() {
			m := x.Args[1].Val
			// contiguous mask only
			if m != 0 {
				lo := uint8(trailingZeros(m))
				wd := uint8(trailingZeros(^(m >> lo)))
				if m == (mask(wd) << lo) {
					in := clip(t.pieces(x.Args[0], depth+1), lo, wd)
					return shiftPieces(in, int(lo), x.W)
				}
			}
		}
	case OpBOr:
		a, b := x.Args[0], x.Args[1]
		if (^a.kz&^b.kz)&mask(x.W) == 0 {
			pa, pb := t.pieces(a, depth+1), t.pieces(b, depth+1)
			if len(pa)+len(pb) <= maxPieces {
				return append(append([]piece{}, pa...), pb...)
			}
		}
	}
	return whole
}

func trailingZeros(v uint64) int {
	n := 0
	for v&1 == 0 && n < 64 {
		v >>= 1
		n++
	}
	return n
}

// clip keeps the bits [lo, lo+w) of a piece list and moves them down to position 0.
func clip(in []piece, lo, w uint8) []piece {
	var out []piece
	for _, p := range in {
		a, b := int(p.dstLo), int(p.dstLo)+int(p.w) // [a,b)
		l, h := int(lo), int(lo)+int(w)
		if b <= l || a >= h {
			continue
		}
		if a < l {
			d := l - a
			p.srcLo += uint8(d)
			p.cval >>= uint(d)
			p.w -= uint8(d)
			a = l
		}
		if b > h {
			p.w -= uint8(b - h)
		}
		p.dstLo = uint8(a - l)
		p.cval &= mask(p.w)
		out = append(out, p)
	}
	return out
}

// shiftPieces moves pieces up (by>0) or down (by<0) inside a word of width w.
func shiftPieces(in []piece, by int, w uint8) []piece {
	var out []piece
	for _, p := range in {
		a := int(p.dstLo) + by
		b := a + int(p.w)
		if b <= 0 || a >= int(w) {
			continue
		}
		if a < 0 {
			d := -a
			p.srcLo += uint8(d)
			p.cval >>= uint(d)
			p.w -= uint8(d)
			a = 0
		}
		if b > int(w) {
			p.w -= uint8(b - int(w))
		}
		p.dstLo = uint8(a)
		p.cval &= mask(p.w)
		out = append(out, p)
	}
	return out
}

// rebuild constructs the canonical term of width w from non-overlapping pieces.
func (t *Table) rebuild(ps []piece, w uint8) *Term {
	sort.Slice(ps, func(i, j int) bool { return ps[i].dstLo < ps[j].dstLo })
	// overlapping pieces: give up
	for i := 1; i < len(ps); i++ {
		if int(ps[i-1].dstLo)+int(ps[i-1].w) > int(ps[i].dstLo) {
			return nil
		}
	}
	// merge adjacent pieces of the same source / constants
	var m []piece
	for _, p := range ps {
		if p.w == 0 {
			continue
		}
		if n := len(m); n > 0 {
			q := &m[n-1]
			if int(q.dstLo)+int(q.w) == int(p.dstLo) {
				if q.src != nil && q.src == p.src && int(q.srcLo)+int(q.w) == int(p.srcLo) {
					q.w += p.w
					continue
				}
				if q.src == nil && p.src == nil {
					q.cval |= p.cval << q.w
					q.w += p.w
					continue
				}
			}
		}
		m = append(m, p)
	}
	// assemble from the low end
	var acc *Term
	pos := uint8(0)
	add := func(x *Term) {
		if acc == nil {
			acc = x
		} else {
			acc = t.mkConcat(x, acc)
		}
		pos += x.W
	}
	for _, p := range m {
		if p.dstLo > pos {
			add(t.Const(p.dstLo-pos, 0))
		}
		if p.src == nil {
			add(t.Const(p.w, p.cval))
		} else {
			add(t.Extract(p.srcLo+p.w-1, p.srcLo, p.src))
		}
	}
	if pos < w {
		add(t.Const(w-pos, 0))
	}
	return acc
}

// mkConcat builds a concat without re-entering the canonicaliser.
func (t *Table) mkConcat(hi, lo *Term) *Term {
	w := hi.W + lo.W
	if hi.IsConst() && lo.IsConst() {
		return t.Const(w, hi.Val<<lo.W|lo.Val)
	}
	if hi.IsConst() && hi.Val == 0 {
		if lo.Op == OpZExt {
			return t.fin(t.mk(OpZExt, w, false, 0, "", []*Term{lo.Args[0]}))
		}
		return t.fin(t.mk(OpZExt, w, false, 0, "", []*Term{lo}))
	}
	return t.fin(t.mk(OpConcat, w, false, 0, "", []*Term{hi, lo}))
}

// canonOr tries to express a|b as a canonical bit re-assembly; nil if not applicable.
func (t *Table) canonOr(a, b *Term) *Term {
	if (^a.kz&^b.kz)&mask(a.W) != 0 {
		return nil
	}
	pa, pb := t.pieces(a, 0), t.pieces(b, 0)
	if len(pa)+len(pb) > maxPieces {
		return nil
	}
	// only worthwhile when something is actually sliced
	sliced := false
	all := append(append([]piece{}, pa...), pb...)
	for _, p := range all {
		if p.src == nil || p.w != a.W || p.srcLo != 0 || p.dstLo != 0 {
			sliced = true
		}
	}
	if !sliced {
		return nil
	}
	return t.rebuild(all, a.W)
}
