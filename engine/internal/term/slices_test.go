package term

import (
	"math/rand"
	"testing"
)

func TestReassemble(t *testing.T) {
	T := NewTable()
	v := T.Var("v", 64)
	var acc *Term
	for i := 0; i < 8; i++ {
		b := T.Extract(uint8(8*i+7), uint8(8*i), v) // byte(v >> 8i)
		x := T.Shl(T.ZExt(64, b), T.Const(64, uint64(8*i)))
		if acc == nil {
			acc = x
		} else {
			acc = T.BOr(acc, x)
		}
	}
	if acc != v {
		t.Fatalf("big-endian style reassembly did not fold: %s", Dump(acc, 6))
	}
	// via LShr + truncation, as Go code does: byte(v>>56)
	acc = nil
	for i := 7; i >= 0; i-- {
		b := T.ZExt(8, T.LShr(v, T.Const(64, uint64(8*i))))
		x := T.Shl(T.ZExt(64, b), T.Const(64, uint64(8*i)))
		if acc == nil {
			acc = x
		} else {
			acc = T.BOr(x, acc)
		}
	}
	if acc != v {
		t.Fatalf("shift style reassembly did not fold: %s", Dump(acc, 6))
	}
	// 16-bit
	w := T.Var("w", 16)
	hi := T.ZExt(8, T.LShr(w, T.Const(16, 8)))
	lo := T.ZExt(8, w)
	r := T.BOr(T.ZExt(16, lo), T.Shl(T.ZExt(16, hi), T.Const(16, 8)))
	if r != w {
		t.Fatalf("16-bit reassembly did not fold: %s", Dump(r, 6))
	}
}

// random differential test of the canonicaliser against the evaluator
func TestCanonSound(t *testing.T) {
	rng := rand.New(rand.NewSource(1))
	for iter := 0; iter < 3000; iter++ {
		T := NewTable()
		x, y := T.Var("x", 32), T.Var("y", 32)
		gen := func() *Term {
			base := x
			if rng.Intn(2) == 0 {
				base = y
			}
			lo := uint8(rng.Intn(28))
			w := uint8(1 + rng.Intn(int(32-lo)))
			e := T.Extract(lo+w-1, lo, base)
			z := T.ZExt(32, e)
			sh := uint64(rng.Intn(32))
			if rng.Intn(3) == 0 {
				return T.LShr(T.Shl(z, T.Const(32, sh)), T.Const(32, uint64(rng.Intn(8))))
			}
			return T.Shl(z, T.Const(32, sh))
		}
		a, b, c := gen(), gen(), gen()
		r := T.BOr(T.BOr(a, b), T.BAnd(c, T.Const(32, 0x00ff0000)))
		for k := 0; k < 5; k++ {
			m := Model{"x": rng.Uint64(), "y": rng.Uint64()}
			e := NewEvaluator(m)
			want := (e.Eval(a) | e.Eval(b) | (e.Eval(c) & 0x00ff0000)) & 0xffffffff
			if got := e.Eval(r); got != want {
				t.Fatalf("iter %d: canonical form differs: got %x want %x term %s", iter, got, want, Dump(r, 8))
			}
		}
	}
}
