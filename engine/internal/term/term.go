// Package term implements hash-consed SMT terms (Bool, bit-vectors up to 64 bits, arrays
// BV64 -> BVw) with a constructor-time simplifier and known-bits analysis.
package term

import (
	"fmt"
	"math"
	"math/bits"
)

type Op uint8

const (
	OpConst Op = iota
	OpVar
	OpNot
	OpAnd
	OpOr
	OpIte
	OpEq
	OpAdd
	OpSub
	OpMul
	OpUDiv
	OpURem
	OpSDiv
	OpSRem
	OpBAnd
	OpBOr
	OpBXor
	OpBNot
	OpNeg
	OpShl
	OpLShr
	OpAShr
	OpULt
	OpULe
	OpSLt
	OpSLe
	OpExtract
	OpConcat
	OpZExt
	OpSExt
	OpConstArr
	OpSelect
	OpStore
	OpFAdd
	OpFSub
	OpFMul
	OpFDiv
	OpFNeg
	OpFLt
	OpFLe
	OpFEq
	OpSIToF
	OpUIToF
	OpFToSI
	OpFToUI
	OpFToF
)

var opNames = map[Op]string{OpNot: "not", OpAnd: "and", OpOr: "or", OpIte: "ite", OpEq: "=", OpAdd: "bvadd", OpSub: "bvsub",
	OpMul: "bvmul", OpUDiv: "bvudiv", OpURem: "bvurem", OpSDiv: "bvsdiv", OpSRem: "bvsrem", OpBAnd: "bvand", OpBOr: "bvor",
	OpBXor: "bvxor", OpBNot: "bvnot", OpNeg: "bvneg", OpShl: "bvshl", OpLShr: "bvlshr", OpAShr: "bvashr", OpULt: "bvult",
	OpULe: "bvule", OpSLt: "bvslt", OpSLe: "bvsle", OpConcat: "concat", OpSelect: "select", OpStore: "store"}

// Term is an immutable, hash-consed term. W is the bit width for bit-vectors, 0 for Bool.
// Arrays have Arr=true and W = element width (index width is always 64).
type Term struct {
	ID   int32
	Op   Op
	W    uint8
	Arr  bool
	Val  uint64 // constant value; for Extract: hi<<8|lo; for FToF etc: source width
	Name string
	Args []*Term
	kz   uint64 // known-zero bits
	ko   uint64 // known-one bits
}

type key struct {
	op         Op
	w          uint8
	arr        bool
	val        uint64
	name       string
	a0, a1, a2 int32
}

// Table owns all terms of one worker.
type Table struct {
	m     map[key]*Term
	next  int32
	True  *Term
	False *Term
}

func NewTable() *Table {
	t := &Table{m: make(map[key]*Term, 1<<12)}
	t.False = t.mk(OpConst, 0, false, 0, "", nil)
	t.True = t.mk(OpConst, 0, false, 1, "", nil)
	return t
}

func (t *Table) Size() int { return int(t.next) }

func mask(w uint8) uint64 {
	if w >= 64 {
		return ^uint64(0)
	}
	return (uint64(1) << w) - 1
}

func (t *Table) mk(op Op, w uint8, arr bool, val uint64, name string, args []*Term) *Term {
	k := key{op: op, w: w, arr: arr, val: val, name: name, a0: -1, a1: -1, a2: -1}
	if len(args) > 0 {
		k.a0 = args[0].ID
	}
	if len(args) > 1 {
		k.a1 = args[1].ID
	}
	if len(args) > 2 {
		k.a2 = args[2].ID
	}
	if x, ok := t.m[k]; ok {
		return x
	}
	x := &Term{ID: t.next, Op: op, W: w, Arr: arr, Val: val, Name: name, Args: args}
	t.next++
	t.m[k] = x
	if !arr && w > 0 {
		t.knownBits(x)
	}
	return x
}

func (x *Term) IsConst() bool { return x.Op == OpConst }
func (x *Term) IsBool() bool  { return x.W == 0 && !x.Arr }
func (x *Term) IsTrue() bool  { return x.Op == OpConst && x.W == 0 && x.Val == 1 }
func (x *Term) IsFalse() bool { return x.Op == OpConst && x.W == 0 && x.Val == 0 }

// KnownBits returns the known-zero and known-one masks.
func (x *Term) KnownBits() (kz, ko uint64) { return x.kz, x.ko }

// UMax returns an upper bound of the unsigned value.
func (x *Term) UMax() uint64 { return ^x.kz & mask(x.W) }

// UMin returns a lower bound of the unsigned value.
func (x *Term) UMin() uint64 { return x.ko }

func (x *Term) String() string {
	switch x.Op {
	case OpConst:
		if x.W == 0 {
			if x.Val == 1 {
				return "true"
			}
			return "false"
		}
		return fmt.Sprintf("#x%0*x/%d", (int(x.W)+3)/4, x.Val, x.W)
	case OpVar:
		return x.Name
	}
	return fmt.Sprintf("t%d", x.ID)
}

func sext(v uint64, w uint8) int64 {
	if w >= 64 {
		return int64(v)
	}
	s := 64 - uint(w)
	return int64(v<<s) >> s
}

// SExt64 sign-extends a w-bit value.
func SExt64(v uint64, w uint8) int64 { return sext(v, w) }

func (t *Table) knownBits(x *Term) {
	m := mask(x.W)
	a := x.Args
	switch x.Op {
	case OpConst:
		x.ko = x.Val & m
		x.kz = ^x.Val & m
	case OpBAnd:
		x.ko = a[0].ko & a[1].ko
		x.kz = a[0].kz | a[1].kz
	case OpBOr:
		x.ko = a[0].ko | a[1].ko
		x.kz = a[0].kz & a[1].kz
	case OpBXor:
		x.ko = (a[0].ko & a[1].kz) | (a[0].kz & a[1].ko)
		x.kz = (a[0].ko & a[1].ko) | (a[0].kz & a[1].kz)
	case OpBNot:
		x.ko, x.kz = a[0].kz, a[0].ko
	case OpIte:
		x.ko = a[1].ko & a[2].ko
		x.kz = a[1].kz & a[2].kz
	case OpZExt:
		x.ko = a[0].ko
		x.kz = a[0].kz | (m &^ mask(a[0].W))
	case OpSExt:
		sw := a[0].W
		sb := uint64(1) << (sw - 1)
		hi := m &^ mask(sw)
		x.ko, x.kz = a[0].ko, a[0].kz
		if a[0].ko&sb != 0 {
			x.ko |= hi
		} else if a[0].kz&sb != 0 {
			x.kz |= hi
		}
	case OpExtract:
		hi, lo := uint8(x.Val>>8), uint8(x.Val)
		_ = hi
		x.ko = (a[0].ko >> lo) & m
		x.kz = (a[0].kz >> lo) & m
	case OpConcat:
		lw := a[1].W
		x.ko = (a[0].ko << lw) | a[1].ko
		x.kz = (a[0].kz << lw) | a[1].kz
	case OpShl:
		if a[1].IsConst() {
			s := a[1].Val
			if s >= uint64(x.W) {
				x.kz = m
			} else {
				x.ko = (a[0].ko << s) & m
				x.kz = ((a[0].kz << s) | mask(uint8(s))) & m
			}
		} else {
			// trailing zeros are preserved
			tz := bits.TrailingZeros64(^a[0].kz)
			if tz > int(x.W) {
				tz = int(x.W)
			}
			x.kz = mask(uint8(tz))
		}
	case OpLShr:
		if a[1].IsConst() {
			s := a[1].Val
			if s >= uint64(x.W) {
				x.kz = m
			} else {
				x.ko = a[0].ko >> s
				x.kz = (a[0].kz >> s) | (m &^ (m >> s))
			}
		} else {
			// leading zeros are preserved
			lz := bits.LeadingZeros64(^a[0].kz&m) - (64 - int(x.W))
			if lz > 0 {
				x.kz = m &^ (m >> uint(lz))
			}
		}
	case OpAShr:
		if a[1].IsConst() {
			s := a[1].Val
			if s >= uint64(x.W) {
				s = uint64(x.W) - 1
			}
			sb := uint64(1) << (x.W - 1)
			x.ko = a[0].ko >> s
			x.kz = a[0].kz >> s
			hi := m &^ (m >> s)
			if a[0].ko&sb != 0 {
				x.ko |= hi
			} else if a[0].kz&sb != 0 {
				x.kz |= hi
			}
		}
	case OpAdd, OpSub:
		l, r := a[0], a[1]
		lz, lo, rz, ro := l.kz, l.ko, r.kz, r.ko
		var cin uint64
		if x.Op == OpSub {
			rz, ro = ro, rz
			cin = 1
		}
		psz := ((^lz & m) + (^rz & m) + cin) & m
		pso := (lo + ro + cin) & m
		ckz := ^(psz ^ lz ^ rz) & m
		cko := (pso ^ lo ^ ro) & m
		known := (ckz | cko) & (lz | lo) & (rz | ro)
		x.kz = ^psz & known & m
		x.ko = pso & known & m
	case OpMul:
		tz := bits.TrailingZeros64(^a[0].kz) + bits.TrailingZeros64(^a[1].kz)
		if tz > int(x.W) {
			tz = int(x.W)
		}
		x.kz = mask(uint8(tz))
	case OpURem:
		if a[1].IsConst() && a[1].Val != 0 {
			// result < divisor
			lz := bits.LeadingZeros64(a[1].Val)
			x.kz = m &^ (^uint64(0) >> uint(lz))
		}
	case OpUDiv:
		// result <= dividend
		lz := bits.LeadingZeros64(^a[0].kz & m)
		if lz < 64 {
			x.kz = m &^ (^uint64(0) >> uint(lz))
		} else {
			x.kz = m
		}
	}
	x.kz &= m
	x.ko &= m
}

// ---------------------------------------------------------------------------------------
// constructors

func (t *Table) Const(w uint8, v uint64) *Term {
	if w == 0 {
		if v != 0 {
			return t.True
		}
		return t.False
	}
	return t.mk(OpConst, w, false, v&mask(w), "", nil)
}

func (t *Table) Bool(b bool) *Term {
	if b {
		return t.True
	}
	return t.False
}

func (t *Table) Var(name string, w uint8) *Term { return t.mk(OpVar, w, false, 0, name, nil) }

func (t *Table) fin(x *Term) *Term {
	// all bits known -> constant
	if !x.Arr && x.W > 0 && x.Op != OpConst && (x.kz|x.ko) == mask(x.W) {
		return t.Const(x.W, x.ko)
	}
	return x
}

func (t *Table) Not(a *Term) *Term {
	if a.IsConst() {
		return t.Bool(a.Val == 0)
	}
	if a.Op == OpNot {
		return a.Args[0]
	}
	return t.mk(OpNot, 0, false, 0, "", []*Term{a})
}

func (t *Table) And(a, b *Term) *Term {
	if a.IsConst() {
		if a.Val == 0 {
			return t.False
		}
		return b
	}
	if b.IsConst() {
		if b.Val == 0 {
			return t.False
		}
		return a
	}
	if a == b {
		return a
	}
	if (a.Op == OpNot && a.Args[0] == b) || (b.Op == OpNot && b.Args[0] == a) {
		return t.False
	}
	if a.ID > b.ID {
		a, b = b, a
	}
	return t.mk(OpAnd, 0, false, 0, "", []*Term{a, b})
}

func (t *Table) Or(a, b *Term) *Term {
	if a.IsConst() {
		if a.Val == 1 {
			return t.True
		}
		return b
	}
	if b.IsConst() {
		if b.Val == 1 {
			return t.True
		}
		return a
	}
	if a == b {
		return a
	}
	if (a.Op == OpNot && a.Args[0] == b) || (b.Op == OpNot && b.Args[0] == a) {
		return t.True
	}
	if a.ID > b.ID {
		a, b = b, a
	}
	return t.mk(OpOr, 0, false, 0, "", []*Term{a, b})
}

func (t *Table) Implies(a, b *Term) *Term { return t.Or(t.Not(a), b) }

func (t *Table) Ite(c, a, b *Term) *Term {
	if c.IsConst() {
		if c.Val == 1 {
			return a
		}
		return b
	}
	if a == b {
		return a
	}
	if c.Op == OpNot {
		return t.Ite(c.Args[0], b, a)
	}
	if a.IsBool() {
		if a.IsTrue() {
			return t.Or(c, b)
		}
		if a.IsFalse() {
			return t.And(t.Not(c), b)
		}
		if b.IsTrue() {
			return t.Or(t.Not(c), a)
		}
		if b.IsFalse() {
			return t.And(c, a)
		}
	}
	return t.fin(t.mk(OpIte, a.W, a.Arr, 0, "", []*Term{c, a, b}))
}

func (t *Table) Eq(a, b *Term) *Term {
	if a == b {
		return t.True
	}
	if a.W != b.W || a.Arr != b.Arr {
		panic(fmt.Sprintf("term.Eq: sort mismatch %d/%d", a.W, b.W))
	}
	if a.IsConst() && !b.IsConst() {
		a, b = b, a
	}
	if a.IsBool() {
		if b.IsConst() {
			if b.Val == 1 {
				return a
			}
			return t.Not(a)
		}
	} else if !a.Arr {
		if a.IsConst() && b.IsConst() {
			return t.Bool(a.Val == b.Val)
		}
		if a.ko&b.kz != 0 || a.kz&b.ko != 0 {
			return t.False
		}
		if b.IsConst() {
			switch a.Op {
			case OpIte:
				if a.Args[1].IsConst() || a.Args[2].IsConst() {
					return t.Ite(a.Args[0], t.Eq(a.Args[1], b), t.Eq(a.Args[2], b))
				}
			case OpZExt:
				if b.Val>>a.Args[0].W != 0 {
					return t.False
				}
				return t.Eq(a.Args[0], t.Const(a.Args[0].W, b.Val))
			}
		}
	}
	if a.ID > b.ID {
		a, b = b, a
	}
	return t.mk(OpEq, 0, false, 0, "", []*Term{a, b})
}

func (t *Table) bin(op Op, a, b *Term) *Term {
	if a.W != b.W {
		panic(fmt.Sprintf("term.bin %v: width mismatch %d/%d", op, a.W, b.W))
	}
	return t.fin(t.mk(op, a.W, false, 0, "", []*Term{a, b}))
}

func (t *Table) Add(a, b *Term) *Term {
	if a.IsConst() && b.IsConst() {
		return t.Const(a.W, a.Val+b.Val)
	}
	if a.IsConst() {
		a, b = b, a
	}
	if b.IsConst() {
		if b.Val == 0 {
			return a
		}
		// (x + c1) + c2
		if a.Op == OpAdd && a.Args[1].IsConst() {
			return t.Add(a.Args[0], t.Const(a.W, a.Args[1].Val+b.Val))
		}
		if a.Op == OpSub && a.Args[1].IsConst() {
			return t.Add(a.Args[0], t.Const(a.W, b.Val-a.Args[1].Val))
		}
	}
	return t.bin(OpAdd, a, b)
}

func (t *Table) Sub(a, b *Term) *Term {
	if a == b {
		return t.Const(a.W, 0)
	}
	if b.IsConst() {
		if a.IsConst() {
			return t.Const(a.W, a.Val-b.Val)
		}
		return t.Add(a, t.Const(a.W, -b.Val))
	}
	// (x + y) - x = y
	if a.Op == OpAdd {
		if a.Args[0] == b {
			return a.Args[1]
		}
		if a.Args[1] == b {
			return a.Args[0]
		}
	}
	return t.bin(OpSub, a, b)
}

func (t *Table) Mul(a, b *Term) *Term {
	if a.IsConst() && b.IsConst() {
		return t.Const(a.W, a.Val*b.Val)
	}
	if a.IsConst() {
		a, b = b, a
	}
	if b.IsConst() {
		switch {
		case b.Val == 0:
			return b
		case b.Val == 1:
			return a
		case b.Val&(b.Val-1) == 0:
			return t.Shl(a, t.Const(a.W, uint64(bits.TrailingZeros64(b.Val))))
		}
	}
	return t.bin(OpMul, a, b)
}

func (t *Table) UDiv(a, b *Term) *Term {
	if b.IsConst() && b.Val != 0 {
		if a.IsConst() {
			return t.Const(a.W, a.Val/b.Val)
		}
		if b.Val&(b.Val-1) == 0 {
			return t.LShr(a, t.Const(a.W, uint64(bits.TrailingZeros64(b.Val))))
		}
	}
	return t.bin(OpUDiv, a, b)
}

func (t *Table) URem(a, b *Term) *Term {
	if b.IsConst() && b.Val != 0 {
		if a.IsConst() {
			return t.Const(a.W, a.Val%b.Val)
		}
		if b.Val&(b.Val-1) == 0 {
			return t.BAnd(a, t.Const(a.W, b.Val-1))
		}
	}
	return t.bin(OpURem, a, b)
}

func (t *Table) SDiv(a, b *Term) *Term {
	if a.IsConst() && b.IsConst() && b.Val != 0 {
		x, y := sext(a.Val, a.W), sext(b.Val, b.W)
		if y == -1 {
			return t.Const(a.W, uint64(-x))
		}
		return t.Const(a.W, uint64(x/y))
	}
	return t.bin(OpSDiv, a, b)
}

func (t *Table) SRem(a, b *Term) *Term {
	if a.IsConst() && b.IsConst() && b.Val != 0 {
		x, y := sext(a.Val, a.W), sext(b.Val, b.W)
		if y == -1 {
			return t.Const(a.W, 0)
		}
		return t.Const(a.W, uint64(x%y))
	}
	return t.bin(OpSRem, a, b)
}

func (t *Table) BAnd(a, b *Term) *Term {
	if a == b {
		return a
	}
	if a.IsConst() {
		a, b = b, a
	}
	if b.IsConst() {
		if a.IsConst() {
			return t.Const(a.W, a.Val&b.Val)
		}
		if b.Val == 0 {
			return b
		}
		if b.Val == mask(a.W) {
			return a
		}
		// mask that keeps all possibly-set bits
		if ^a.kz&mask(a.W)&^b.Val == 0 {
			return a
		}
	}
	return t.bin(OpBAnd, a, b)
}

func (t *Table) BOr(a, b *Term) *Term {
	if a == b {
		return a
	}
	if a.IsConst() {
		a, b = b, a
	}
	if b.IsConst() {
		if a.IsConst() {
			return t.Const(a.W, a.Val|b.Val)
		}
		if b.Val == 0 {
			return a
		}
		if b.Val == mask(a.W) {
			return b
		}
	}
	if a.W == b.W {
		if r := t.canonOr(a, b); r != nil {
			return r
		}
	}
	return t.bin(OpBOr, a, b)
}

func (t *Table) BXor(a, b *Term) *Term {
	if a == b {
		return t.Const(a.W, 0)
	}
	if a.IsConst() {
		a, b = b, a
	}
	if b.IsConst() {
		if a.IsConst() {
			return t.Const(a.W, a.Val^b.Val)
		}
		if b.Val == 0 {
			return a
		}
		if b.Val == mask(a.W) {
			return t.BNot(a)
		}
	}
	return t.bin(OpBXor, a, b)
}

func (t *Table) BNot(a *Term) *Term {
	if a.IsConst() {
		return t.Const(a.W, ^a.Val)
	}
	if a.Op == OpBNot {
		return a.Args[0]
	}
	return t.fin(t.mk(OpBNot, a.W, false, 0, "", []*Term{a}))
}

func (t *Table) Neg(a *Term) *Term { return t.Sub(t.Const(a.W, 0), a) }

// Shl, LShr, AShr take a shift count of the same width as a; counts >= width give 0 (or sign
// fill), which is both SMT-LIB and Go semantics.
func (t *Table) Shl(a, s *Term) *Term {
	if s.IsConst() {
		if s.Val == 0 {
			return a
		}
		if s.Val >= uint64(a.W) {
			return t.Const(a.W, 0)
		}
		if a.IsConst() {
			return t.Const(a.W, a.Val<<s.Val)
		}
	}
	return t.bin(OpShl, a, s)
}

func (t *Table) LShr(a, s *Term) *Term {
	if s.IsConst() {
		if s.Val == 0 {
			return a
		}
		if s.Val >= uint64(a.W) {
			return t.Const(a.W, 0)
		}
		if a.IsConst() {
			return t.Const(a.W, a.Val>>s.Val)
		}
	}
	return t.bin(OpLShr, a, s)
}

func (t *Table) AShr(a, s *Term) *Term {
	if s.IsConst() {
		if s.Val == 0 {
			return a
		}
		if a.IsConst() {
			sh := s.Val
			if sh >= uint64(a.W) {
				sh = uint64(a.W) - 1
			}
			return t.Const(a.W, uint64(sext(a.Val, a.W)>>sh))
		}
		if s.Val >= uint64(a.W) {
			s = t.Const(a.W, uint64(a.W)-1)
		}
	}
	// sign bit known zero: logical shift
	if a.kz&(uint64(1)<<(a.W-1)) != 0 {
		return t.LShr(a, s)
	}
	return t.bin(OpAShr, a, s)
}

func (t *Table) cmp(op Op, a, b *Term) *Term {
	if a.W != b.W {
		panic("term.cmp: width mismatch")
	}
	return t.mk(op, 0, false, 0, "", []*Term{a, b})
}

func (t *Table) ULt(a, b *Term) *Term {
	if a == b {
		return t.False
	}
	if a.UMax() < b.UMin() {
		return t.True
	}
	if a.UMin() >= b.UMax() {
		return t.False
	}
	return t.cmp(OpULt, a, b)
}

func (t *Table) ULe(a, b *Term) *Term {
	if a == b {
		return t.True
	}
	if a.UMax() <= b.UMin() {
		return t.True
	}
	if a.UMin() > b.UMax() {
		return t.False
	}
	return t.cmp(OpULe, a, b)
}

func signKnown(a *Term) (neg, known bool) {
	sb := uint64(1) << (a.W - 1)
	if a.ko&sb != 0 {
		return true, true
	}
	if a.kz&sb != 0 {
		return false, true
	}
	return false, false
}

func (t *Table) SLt(a, b *Term) *Term {
	if a == b {
		return t.False
	}
	if a.IsConst() && b.IsConst() {
		return t.Bool(sext(a.Val, a.W) < sext(b.Val, b.W))
	}
	an, ak := signKnown(a)
	bn, bk := signKnown(b)
	if ak && bk {
		if an != bn {
			return t.Bool(an)
		}
		return t.ULt(a, b)
	}
	return t.cmp(OpSLt, a, b)
}

func (t *Table) SLe(a, b *Term) *Term {
	if a == b {
		return t.True
	}
	if a.IsConst() && b.IsConst() {
		return t.Bool(sext(a.Val, a.W) <= sext(b.Val, b.W))
	}
	an, ak := signKnown(a)
	bn, bk := signKnown(b)
	if ak && bk {
		if an != bn {
			return t.Bool(an)
		}
		return t.ULe(a, b)
	}
	return t.cmp(OpSLe, a, b)
}

func (t *Table) Extract(hi, lo uint8, a *Term) *Term {
	w := hi - lo + 1
	if lo == 0 && w == a.W {
		return a
	}
	if a.IsConst() {
		return t.Const(w, a.Val>>lo)
	}
	switch a.Op {
	case OpZExt, OpSExt:
		in := a.Args[0]
		if hi < in.W {
			return t.Extract(hi, lo, in)
		}
		if a.Op == OpZExt && lo >= in.W {
			return t.Const(w, 0)
		}
	case OpConcat:
		l := a.Args[1]
		if hi < l.W {
			return t.Extract(hi, lo, l)
		}
		if lo >= l.W {
			return t.Extract(hi-l.W, lo-l.W, a.Args[0])
		}
	case OpExtract:
		ilo := uint8(a.Val)
		return t.Extract(hi+ilo, lo+ilo, a.Args[0])
	case OpBAnd, OpBOr, OpBXor:
		if a.Args[1].IsConst() {
			x := t.Extract(hi, lo, a.Args[0])
			c := t.Const(w, a.Args[1].Val>>lo)
			switch a.Op {
			case OpBAnd:
				return t.BAnd(x, c)
			case OpBOr:
				return t.BOr(x, c)
			default:
				return t.BXor(x, c)
			}
		}
	case OpLShr:
		// extract(hi,lo, x >> c) = extract(hi+c, lo+c, x) when in range
		if a.Args[1].IsConst() {
			c := a.Args[1].Val
			if uint64(hi)+c < uint64(a.W) {
				return t.Extract(hi+uint8(c), lo+uint8(c), a.Args[0])
			}
		}
	case OpShl:
		if a.Args[1].IsConst() {
			c := a.Args[1].Val
			if uint64(lo) >= c {
				return t.Extract(hi-uint8(c), lo-uint8(c), a.Args[0])
			}
		}
	}
	return t.fin(t.mk(OpExtract, w, false, uint64(hi)<<8|uint64(lo), "", []*Term{a}))
}

func (t *Table) Concat(a, b *Term) *Term {
	w := a.W + b.W
	if a.IsConst() && b.IsConst() {
		return t.Const(w, a.Val<<b.W|b.Val)
	}
	if a.IsConst() && a.Val == 0 {
		return t.ZExt(w, b)
	}
	return t.fin(t.mk(OpConcat, w, false, 0, "", []*Term{a, b}))
}

func (t *Table) ZExt(w uint8, a *Term) *Term {
	if w == a.W {
		return a
	}
	if w < a.W {
		return t.Extract(w-1, 0, a)
	}
	if a.IsConst() {
		return t.Const(w, a.Val)
	}
	if a.Op == OpZExt {
		return t.ZExt(w, a.Args[0])
	}
	return t.fin(t.mk(OpZExt, w, false, 0, "", []*Term{a}))
}

func (t *Table) SExt(w uint8, a *Term) *Term {
	if w == a.W {
		return a
	}
	if w < a.W {
		return t.Extract(w-1, 0, a)
	}
	if a.IsConst() {
		return t.Const(w, uint64(sext(a.Val, a.W)))
	}
	if a.kz&(uint64(1)<<(a.W-1)) != 0 {
		return t.ZExt(w, a)
	}
	return t.fin(t.mk(OpSExt, w, false, 0, "", []*Term{a}))
}

// BoolToBV converts a Bool to a w-bit 0/1 value.
func (t *Table) BoolToBV(w uint8, c *Term) *Term { return t.Ite(c, t.Const(w, 1), t.Const(w, 0)) }

// ---------------------------------------------------------------------------------------
// arrays

func (t *Table) ConstArr(w uint8, def *Term) *Term {
	return t.mk(OpConstArr, w, true, 0, "", []*Term{def})
}

// distinct reports whether two index terms provably differ.
func distinct(a, b *Term) bool {
	if a.IsConst() && b.IsConst() {
		return a.Val != b.Val
	}
	return a.ko&b.kz != 0 || a.kz&b.ko != 0
}

func (t *Table) Select(arr, idx *Term) *Term {
	for {
		switch arr.Op {
		case OpStore:
			if arr.Args[1] == idx {
				return arr.Args[2]
			}
			if distinct(arr.Args[1], idx) {
				arr = arr.Args[0]
				continue
			}
		case OpConstArr:
			return arr.Args[0]
		}
		break
	}
	return t.fin(t.mk(OpSelect, arr.W, false, 0, "", []*Term{arr, idx}))
}

func (t *Table) Store(arr, idx, v *Term) *Term {
	if arr.Op == OpStore && arr.Args[1] == idx {
		arr = arr.Args[0]
	}
	if v.W != arr.W {
		panic(fmt.Sprintf("term.Store: width mismatch %d/%d", v.W, arr.W))
	}
	return t.mk(OpStore, arr.W, true, 0, "", []*Term{arr, idx, v})
}

// ---------------------------------------------------------------------------------------
// floating point (values are carried as their IEEE bit patterns)

func f32(v uint64) float32 { return math.Float32frombits(uint32(v)) }
func f64(v uint64) float64 { return math.Float64frombits(v) }

func fpBin(op Op, w uint8, a, b uint64) uint64 {
	if w == 32 {
		x, y := f32(a), f32(b)
		var r float32
		switch op {
		case OpFAdd:
			r = x + y
		case OpFSub:
			r = x - y
		case OpFMul:
			r = x * y
		case OpFDiv:
			r = x / y
		}
		return uint64(math.Float32bits(r))
	}
	x, y := f64(a), f64(b)
	var r float64
	switch op {
	case OpFAdd:
		r = x + y
	case OpFSub:
		r = x - y
	case OpFMul:
		r = x * y
	case OpFDiv:
		r = x / y
	}
	return math.Float64bits(r)
}

func fpCmp(op Op, w uint8, a, b uint64) bool {
	var x, y float64
	if w == 32 {
		x, y = float64(f32(a)), float64(f32(b))
	} else {
		x, y = f64(a), f64(b)
	}
	switch op {
	case OpFLt:
		return x < y
	case OpFLe:
		return x <= y
	}
	return x == y
}

func (t *Table) FBin(op Op, a, b *Term) *Term {
	if a.IsConst() && b.IsConst() {
		return t.Const(a.W, fpBin(op, a.W, a.Val, b.Val))
	}
	return t.mk(op, a.W, false, 0, "", []*Term{a, b})
}

func (t *Table) FNeg(a *Term) *Term {
	return t.BXor(a, t.Const(a.W, uint64(1)<<(a.W-1)))
}

func (t *Table) FCmp(op Op, a, b *Term) *Term {
	if a.IsConst() && b.IsConst() {
		return t.Bool(fpCmp(op, a.W, a.Val, b.Val))
	}
	return t.mk(op, 0, false, 0, "", []*Term{a, b})
}

// FConv converts between numeric representations. op is one of OpSIToF, OpUIToF (int -> float of
// width w), OpFToSI, OpFToUI (float -> int of width w), OpFToF (float -> float of width w).
func (t *Table) FConv(op Op, w uint8, a *Term) *Term {
	if a.IsConst() {
		return t.Const(w, fpConv(op, w, a.W, a.Val))
	}
	if op == OpFToF && w == a.W {
		return a
	}
	return t.mk(op, w, false, uint64(a.W), "", []*Term{a})
}

func fpConv(op Op, w, sw uint8, v uint64) uint64 {
	toBits := func(f float64) uint64 {
		if w == 32 {
			return uint64(math.Float32bits(float32(f)))
		}
		return math.Float64bits(f)
	}
	fromBits := func() float64 {
		if sw == 32 {
			return float64(f32(v))
		}
		return f64(v)
	}
	switch op {
	case OpSIToF:
		if w == 32 {
			return uint64(math.Float32bits(float32(sext(v, sw))))
		}
		return math.Float64bits(float64(sext(v, sw)))
	case OpUIToF:
		if w == 32 {
			return uint64(math.Float32bits(float32(v)))
		}
		return math.Float64bits(float64(v))
	case OpFToSI:
		return uint64(int64(fromBits())) & mask(w)
	case OpFToUI:
		f := fromBits()
		if f < 0 {
			return uint64(int64(f)) & mask(w)
		}
		return uint64(f) & mask(w)
	case OpFToF:
		return toBits(fromBits())
	}
	panic("fpConv")
}

// ---------------------------------------------------------------------------------------
// derived bit tricks (math/bits)

// Popcount returns the number of set bits of a as a term of the same width (64-bit only uses the
// parallel-prefix formulation, which SAT solvers handle far better than a chain of 64 additions).
func (t *Table) Popcount(a *Term) *Term {
	if a.IsConst() {
		return t.Const(a.W, uint64(bits.OnesCount64(a.Val)))
	}
	if a.W != 64 {
		sum := t.Const(a.W, 0)
		for i := uint8(0); i < a.W; i++ {
			if a.kz&(uint64(1)<<i) != 0 {
				continue
			}
			sum = t.Add(sum, t.ZExt(a.W, t.Extract(i, i, a)))
		}
		return sum
	}
	c := func(v uint64) *Term { return t.Const(64, v) }
	const m0, m1, m2 = 0x5555555555555555, 0x3333333333333333, 0x0f0f0f0f0f0f0f0f
	x := a
	x = t.Add(t.BAnd(t.LShr(x, c(1)), c(m0)), t.BAnd(x, c(m0)))
	x = t.Add(t.BAnd(t.LShr(x, c(2)), c(m1)), t.BAnd(x, c(m1)))
	x = t.BAnd(t.Add(t.LShr(x, c(4)), x), c(m2))
	x = t.Add(x, t.LShr(x, c(8)))
	x = t.Add(x, t.LShr(x, c(16)))
	x = t.Add(x, t.LShr(x, c(32)))
	return t.BAnd(x, c(127))
}

// TrailingZeros returns the count of trailing zero bits (width of a when a == 0), as width-64 term.
func (t *Table) TrailingZeros(a *Term) *Term {
	r := t.Const(64, uint64(a.W))
	for i := int(a.W) - 1; i >= 0; i-- {
		b := t.Eq(t.Extract(uint8(i), uint8(i), a), t.Const(1, 1))
		r = t.Ite(b, t.Const(64, uint64(i)), r)
	}
	return r
}

// LeadingZeros returns the count of leading zero bits as width-64 term.
func (t *Table) LeadingZeros(a *Term) *Term {
	r := t.Const(64, uint64(a.W))
	for i := 0; i < int(a.W); i++ {
		b := t.Eq(t.Extract(uint8(i), uint8(i), a), t.Const(1, 1))
		r = t.Ite(b, t.Const(64, uint64(int(a.W)-1-i)), r)
	}
	return r
}

// Dump renders a term as an s-expression (for diagnostics).
func Dump(x *Term, depth int) string {
	if x.Op == OpConst || x.Op == OpVar {
		return x.String()
	}
	if depth == 0 {
		return x.String()
	}
	n := opNames[x.Op]
	if n == "" {
		n = fmt.Sprintf("op%d", x.Op)
		if x.Op == OpExtract {
			n = fmt.Sprintf("extract[%d:%d]", x.Val>>8, x.Val&0xff)
		}
		if x.Op == OpZExt {
			n = fmt.Sprintf("zext%d", x.W)
		}
		if x.Op == OpSExt {
			n = fmt.Sprintf("sext%d", x.W)
		}
	}
	s := "(" + n
	for _, a := range x.Args {
		s += " " + Dump(a, depth-1)
	}
	return s + ")"
}
