package term

import "fmt"

// Model maps input variable names to values; missing variables are 0.
type Model map[string]uint64

// Evaluator evaluates terms concretely under a model, with memoisation.
type Evaluator struct {
	M    Model
	memo map[*Term]uint64
}

func NewEvaluator(m Model) *Evaluator {
	return &Evaluator{M: m, memo: make(map[*Term]uint64, 256)}
}

func b2u(b bool) uint64 {
	if b {
		return 1
	}
	return 0
}

// Bool evaluates a Bool term.
func (e *Evaluator) Bool(x *Term) bool { return e.Eval(x) != 0 }

// Eval evaluates a Bool or bit-vector term.
func (e *Evaluator) Eval(x *Term) uint64 {
	switch x.Op {
	case OpConst:
		return x.Val
	case OpVar:
		if x.W == 0 {
			return e.M[x.Name] & 1
		}
		return e.M[x.Name] & mask(x.W)
	}
	if v, ok := e.memo[x]; ok {
		return v
	}
	v := e.eval(x)
	e.memo[x] = v
	return v
}

func (e *Evaluator) eval(x *Term) uint64 {
	a := x.Args
	m := mask(x.W)
	switch x.Op {
	case OpNot:
		return 1 - e.Eval(a[0])
	case OpAnd:
		if e.Eval(a[0]) == 0 {
			return 0
		}
		return e.Eval(a[1])
	case OpOr:
		if e.Eval(a[0]) == 1 {
			return 1
		}
		return e.Eval(a[1])
	case OpIte:
		if e.Eval(a[0]) != 0 {
			return e.Eval(a[1])
		}
		return e.Eval(a[2])
	case OpEq:
		if a[0].Arr {
			panic("eval: array equality")
		}
		return b2u(e.Eval(a[0]) == e.Eval(a[1]))
	case OpAdd:
		return (e.Eval(a[0]) + e.Eval(a[1])) & m
	case OpSub:
		return (e.Eval(a[0]) - e.Eval(a[1])) & m
	case OpMul:
		return (e.Eval(a[0]) * e.Eval(a[1])) & m
	case OpUDiv:
		d := e.Eval(a[1])
		if d == 0 {
			return m
		}
		return e.Eval(a[0]) / d
	case OpURem:
		d := e.Eval(a[1])
		if d == 0 {
			return e.Eval(a[0])
		}
		return e.Eval(a[0]) % d
	case OpSDiv:
		n, d := sext(e.Eval(a[0]), x.W), sext(e.Eval(a[1]), x.W)
		if d == 0 {
			if n < 0 {
				return 1
			}
			return m
		}
		if d == -1 {
			return uint64(-n) & m
		}
		return uint64(n/d) & m
	case OpSRem:
		n, d := sext(e.Eval(a[0]), x.W), sext(e.Eval(a[1]), x.W)
		if d == 0 {
			return uint64(n) & m
		}
		if d == -1 {
			return 0
		}
		return uint64(n%d) & m
	case OpBAnd:
		return e.Eval(a[0]) & e.Eval(a[1])
	case OpBOr:
		return e.Eval(a[0]) | e.Eval(a[1])
	case OpBXor:
		return e.Eval(a[0]) ^ e.Eval(a[1])
	case OpBNot:
		return ^e.Eval(a[0]) & m
	case OpShl:
		s := e.Eval(a[1])
		if s >= uint64(x.W) {
			return 0
		}
		return (e.Eval(a[0]) << s) & m
	case OpLShr:
		s := e.Eval(a[1])
		if s >= uint64(x.W) {
			return 0
		}
		return e.Eval(a[0]) >> s
	case OpAShr:
		s := e.Eval(a[1])
		if s >= uint64(x.W) {
			s = uint64(x.W) - 1
		}
		return uint64(sext(e.Eval(a[0]), x.W)>>s) & m
	case OpULt:
		return b2u(e.Eval(a[0]) < e.Eval(a[1]))
	case OpULe:
		return b2u(e.Eval(a[0]) <= e.Eval(a[1]))
	case OpSLt:
		return b2u(sext(e.Eval(a[0]), a[0].W) < sext(e.Eval(a[1]), a[0].W))
	case OpSLe:
		return b2u(sext(e.Eval(a[0]), a[0].W) <= sext(e.Eval(a[1]), a[0].W))
	case OpExtract:
		lo := uint8(x.Val)
		return (e.Eval(a[0]) >> lo) & m
	case OpConcat:
		return (e.Eval(a[0])<<a[1].W | e.Eval(a[1])) & m
	case OpZExt:
		return e.Eval(a[0])
	case OpSExt:
		return uint64(sext(e.Eval(a[0]), a[0].W)) & m
	case OpSelect:
		idx := e.Eval(a[1])
		arr := a[0]
		for {
			switch arr.Op {
			case OpStore:
				if e.Eval(arr.Args[1]) == idx {
					return e.Eval(arr.Args[2])
				}
				arr = arr.Args[0]
				continue
			case OpConstArr:
				return e.Eval(arr.Args[0])
			case OpIte:
				if e.Eval(arr.Args[0]) != 0 {
					arr = arr.Args[1]
				} else {
					arr = arr.Args[2]
				}
				continue
			}
			panic(fmt.Sprintf("eval: select over %v", arr.Op))
		}
	case OpFAdd, OpFSub, OpFMul, OpFDiv:
		return fpBin(x.Op, x.W, e.Eval(a[0]), e.Eval(a[1]))
	case OpFLt, OpFLe, OpFEq:
		return b2u(fpCmp(x.Op, a[0].W, e.Eval(a[0]), e.Eval(a[1])))
	case OpSIToF, OpUIToF, OpFToSI, OpFToUI, OpFToF:
		return fpConv(x.Op, x.W, a[0].W, e.Eval(a[0]))
	}
	panic(fmt.Sprintf("eval: unsupported op %d", x.Op))
}
