package main

import (
	"sort"

	"verif/engine/internal/symex"
)

type harnessEvidence struct {
	Name         string         `json:"harness"`
	Pkg          string         `json:"pkg"`
	Params       map[string]int `json:"params"`
	Paths        int64          `json:"paths_executed"`
	PathsDone    int64          `json:"paths_completed"`
	Infeasible   int64          `json:"paths_infeasible"`
	AssertPaths  int64          `json:"paths_reaching_assertions"`
	Decisions    int64          `json:"decision_nodes"`
	Transitions  int64          `json:"decision_edges"`
	Steps        int64          `json:"ssa_instructions_executed"`
	Feas         map[string]int64 `json:"feasibility_queries"`
	Oblig        map[string]int64 `json:"obligation_queries"`
	SolverS      float64        `json:"solver_s"`
	WallS        float64        `json:"wall_s"`
	Covers       map[string]bool `json:"cover_labels"`
	Validated    int            `json:"witnesses_validated_natively"`
	KnownSeen    []string       `json:"known_findings_seen,omitempty"`
	Violations   int            `json:"violations_found"`
	Truncated    bool           `json:"truncated"`
	Unwind       int            `json:"unwind_limit"`
	Preemptions  int            `json:"preemption_bound,omitempty"`
	Note         string         `json:"note,omitempty"`
}

type evidence struct {
	prop         string
	opt          options
	harnesses    []*harnessEvidence
	funcs        map[string]int
	stubs        map[string]int
	samples      []any
	Violations   int
	Problems     []string
	NativeBuildS float64
	RaceNative   []string
	CrossChecked  int
	CrossDisagree int
	wall         float64
	ps           *propSpec
}

func newEvidence(prop string, opt options) *evidence {
	return &evidence{prop: prop, opt: opt, funcs: map[string]int{}, stubs: map[string]int{}}
}

func (e *evidence) addHarness(hs harnessSpec, h *symex.HarnessRun) *harnessEvidence {
	he := &harnessEvidence{Name: hs.Name, Pkg: hs.Pkg, Params: h.Params, Paths: h.Paths, PathsDone: h.PathsDone, Infeasible: h.Infeasible,
		AssertPaths: h.AssertPaths, Decisions: h.Decisions, Transitions: h.Transitions, Steps: h.Steps,
		Feas:    map[string]int64{"sat": h.Feas[0], "unsat": h.Feas[1], "unknown": h.Feas[2]},
		Oblig:   map[string]int64{"sat": h.Oblig[0], "unsat": h.Oblig[1], "unknown": h.Oblig[2]},
		SolverS: float64(h.SolverNs) / 1e9, WallS: h.WallSecs, Covers: h.Covered, Violations: len(h.Violations), Truncated: h.Truncated,
		Unwind: h.Unwind, Note: hs.Note}
	if hs.Threads {
		he.Preemptions = h.Preemptions
	}
	for f, n := range h.Funcs {
		e.funcs[f] += n
	}
	for f, n := range h.Stubs {
		e.stubs[f] += n
	}
	e.harnesses = append(e.harnesses, he)
	return he
}

func (e *evidence) addSample(harness string, w *symex.Witness) {
	if len(e.samples) >= 6 {
		return
	}
	e.samples = append(e.samples, map[string]any{"harness": harness, "inputs": w.Inputs, "observations": w.Observes, "schedule": w.Schedule})
}

func (e *evidence) finish(wall float64, ps *propSpec) {
	e.wall = wall
	e.ps = ps
}

func sortedKeys(m map[string]int) []string {
	var k []string
	for s := range m {
		k = append(k, s)
	}
	sort.Strings(k)
	return k
}

func (e *evidence) toJSON() map[string]any {
	var states, trans, evals, nontriv int64
	var validated int
	var solver float64
	q := map[string]int64{}
	for _, h := range e.harnesses {
		states += h.Decisions + 1
		trans += h.Transitions + 1
		evals += h.Paths
		nontriv += h.AssertPaths
		validated += h.Validated
		solver += h.SolverS
		for k, v := range h.Feas {
			q["feasibility_"+k] += v
		}
		for k, v := range h.Oblig {
			q["obligation_"+k] += v
		}
	}
	if len(e.samples) == 0 {
		for _, h := range e.harnesses {
			e.samples = append(e.samples, map[string]any{"harness": h.Name, "params": h.Params, "note": "no completed path with observations to sample"})
		}
	}
	funcs := []string{}
	for _, f := range sortedKeys(e.funcs) {
		funcs = append(funcs, f)
	}
	stubs := []string{}
	for _, f := range sortedKeys(e.stubs) {
		stubs = append(stubs, f)
	}
	cov := map[string]any{
		"states":                        states,
		"transitions":                   trans,
		"traces_validated_against_impl": validated,
		"samples":                       e.samples,
		"exhaustive":                    false,
		"evaluations":                   evals,
		"distinct_nontrivial":           nontriv,
		"rule": "every path of each harness is executed symbolically over the real Go SSA (one decision vector per path, no two paths share one); " +
			"a path is non-trivial when it is feasible, runs to the end of the harness and reaches at least one property assertion; " +
			"states = decision nodes, transitions = decision edges (including those found infeasible by the solver)",
		"functions_encoded":  funcs,
		"stubs_used":         stubs,
		"queries":            q,
		"solver_s":           solver,
		"solver":             e.opt.solver + " (incremental, one process per worker)",
		"harnesses":          e.harnesses,
		"native_build_s":     e.NativeBuildS,
		"problems":           e.Problems,
		"races_native":       e.RaceNative,
		"cross_solver":       map[string]any{"solvers": "z3 4.8.12 vs z3 5.1.0 (z3-new)", "harness_instances_checked": e.CrossChecked, "disagreements": e.CrossDisagree},
		"encoding":           "regenerated from /repo's working tree on this run (go/packages + go/ssa with the harness overlay; nothing cached)",
	}
	if e.ps != nil && e.ps.Bounds != "" {
		cov["bounds"] = e.ps.Bounds
	}
	out := map[string]any{
		"property_id": e.prop,
		"tier":        e.opt.tier,
		"seed":        e.opt.seed,
		"level":       "model_checking",
		"coverage":    cov,
		"wall_s":      e.wall,
		"violations":  e.Violations,
	}
	as := []string{
		"bounded symbolic execution: the verdict covers every input value inside the harness bounds (operation count, string lengths, block set, unwinding limits) and nothing outside them",
		"SMT solver (z3) answers are trusted; any (error or unknown on an obligation makes the run inconclusive, never a pass",
		"engine semantics of Go SSA are trusted only as far as the per-run translator validation (witness replay against the native build) exercises them",
	}
	if e.ps != nil {
		as = append(as, e.ps.Assumptions...)
	}
	out["assumptions"] = as
	return out
}
