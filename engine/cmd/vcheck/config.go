package main

import (
	"verif/engine/internal/symex"
)

// configureProgram installs the harness-side models of library functions.
func configureProgram(p *symex.Program) {
	p.AddReplacement("github.com/kelindar/bitmap.Sum", "verifModelSum")
	p.AddReplacement("github.com/kelindar/bitmap.Min", "verifModelMin")
	p.AddReplacement("github.com/kelindar/bitmap.Max", "verifModelMax")
	p.AddReplacement("(*github.com/kelindar/bitmap.Bitmap).Filter", "verifModelFilter")
	p.AddReplacement("(github.com/kelindar/bitmap.Bitmap).Range", "verifModelRange")
	p.AddReplacement("github.com/kelindar/intmap.New", "verifModelIntmapNew")
	p.AddReplacement("(*github.com/kelindar/intmap.Map).Load", "verifModelIntmapLoad")
	p.AddReplacement("(*github.com/kelindar/intmap.Map).Store", "verifModelIntmapStore")
	p.AddReplacement("(*github.com/kelindar/intmap.Map).Count", "verifModelIntmapCount")
	// I/O environment
	p.AddReplacement("github.com/klauspost/compress/s2.NewWriter", "VerifS2NewWriter")
	p.AddReplacement("(*github.com/klauspost/compress/s2.Writer).Write", "VerifS2Write")
	p.AddReplacement("(*github.com/klauspost/compress/s2.Writer).Flush", "VerifS2Flush")
	p.AddReplacement("(*github.com/klauspost/compress/s2.Writer).Close", "VerifS2Close")
	p.AddReplacement("github.com/klauspost/compress/s2.NewReader", "VerifS2NewReader")
	p.AddReplacement("(*github.com/klauspost/compress/s2.Reader).Read", "VerifS2Read")
	p.AddReplacement("(*github.com/klauspost/compress/s2.Reader).ReadByte", "VerifS2ReadByte")
	p.AddReplacement("os.CreateTemp", "VerifOsCreateTemp")
	p.AddReplacement("os.Remove", "VerifOsRemove")
	p.AddReplacement("(*os.File).Name", "VerifFileName")
	p.AddReplacement("(*os.File).Write", "VerifFileWrite")
	p.AddReplacement("(*os.File).Read", "VerifFileRead")
	p.AddReplacement("(*os.File).Seek", "VerifFileSeek")
	p.AddReplacement("(*os.File).Close", "VerifFileClose")
	p.AddReplacement("io.Copy", "VerifIoCopy")
}

// applyEngineParams lets registry parameters tune engine limits.
func applyEngineParams(h *symex.HarnessRun, params map[string]int) {
	if v, ok := params["unwind"]; ok {
		h.Unwind = v
	}
	if v, ok := params["preemptions"]; ok {
		h.Preemptions = v
	}
	if v, ok := params["maxPaths"]; ok {
		h.MaxPaths = int64(v)
	}
	if v, ok := params["witnesses"]; ok {
		h.WitnessMax = v
	}
	if v, ok := params["yieldMask"]; ok {
		h.Yields = map[int]bool{}
		for p := 0; p < 32; p++ {
			if v&(1<<p) != 0 {
				h.Yields[p] = true
			}
		}
	}
}
