package main

import (
	"verif/engine/internal/symex"
)

// configureProgram installs the harness-side models of library functions.
func configureProgram(p *symex.Program) {
	p.AddReplacement("github.com/kelindar/bitmap.Sum", "verifModelSum")
	p.AddReplacement("github.com/kelindar/bitmap.Min", "verifModelMin")
	p.AddReplacement("github.com/kelindar/bitmap.Max", "verifModelMax")
	p.AddReplacement("(*github.com/kelindar/bitmap.Bitmap).Filter", "verifModelFilter")
	p.AddReplacement("(github.com/kelindar/bitmap.Bitmap).Range", "verifModelRange")
}

// applyEngineParams lets registry parameters tune engine limits.
func applyEngineParams(h *symex.HarnessRun, params map[string]int) {
	if v, ok := params["unwind"]; ok {
		h.Unwind = v
	}
	if v, ok := params["preemptions"]; ok {
		h.Preemptions = v
	}
	if v, ok := params["maxPaths"]; ok {
		h.MaxPaths = int64(v)
	}
	if v, ok := params["witnesses"]; ok {
		h.WitnessMax = v
	}
}
