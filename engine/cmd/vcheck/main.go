// vcheck: solver-based checks of kelindar/column (Go SSA -> SMT, bounded symbolic execution).
package main

import (
	"bufio"
	"bytes"
	"encoding/json"
	"fmt"
	"os"
	"os/exec"
	"path/filepath"
	"sort"
	"strconv"
	"strings"
	"time"

	"verif/engine/internal/symex"
)

const (
	repoDir  = "/repo"
	verifDir = "/verif"
)

type harnessSpec struct {
	Name    string                    `json:"name"`
	Pkg     string                    `json:"pkg"` // "column" or "commit"
	Params  map[string]map[string]int `json:"params"`
	Covers  []string                  `json:"covers"`
	Known   []string                  `json:"known"`
	Threads bool                      `json:"threads"`
	NoNative bool                     `json:"no_native"` // the native build cannot be forced onto the model (wall clock): engine-side replay only
	Note    string                    `json:"note"`
	// Rotate: per parameter a list of values; in the quick tier the value is picked by VERIF_SEED
	// (a different subset of column kinds on every run with a different seed)
	Rotate map[string][]int `json:"rotate"`
}

type propSpec struct {
	Harnesses   []harnessSpec `json:"harnesses"`
	Assumptions []string      `json:"assumptions"`
	Bounds      string        `json:"bounds"`
}

type options struct {
	tier    string
	seed    int64
	only    string
	workers int
	verbose bool
	solver  string
	noNat   bool
	noCross bool
	params  map[string]int
	budget  time.Duration
}

func main() {
	if len(os.Args) < 2 {
		usage()
	}
	switch os.Args[1] {
	case "run":
		os.Exit(cmdRun(os.Args[2:]))
	case "replay":
		os.Exit(cmdReplay(os.Args[2:]))
	case "list":
		reg := loadRegistry()
		var ids []string
		for id := range reg {
			ids = append(ids, id)
		}
		sort.Strings(ids)
		for _, id := range ids {
			for _, h := range reg[id].Harnesses {
				fmt.Printf("%s %s (%s)\n", id, h.Name, h.Pkg)
			}
		}
	default:
		usage()
	}
}

func usage() {
	fmt.Fprintln(os.Stderr, "usage: vcheck run <property> [--tier quick|thorough] [--only harness] [--workers n] [-v] | vcheck replay <file> | vcheck list")
	os.Exit(2)
}

func loadRegistry() map[string]*propSpec {
	data, err := os.ReadFile(filepath.Join(verifDir, "harness", "registry.json"))
	if err != nil {
		fatal(err)
	}
	reg := map[string]*propSpec{}
	if err := json.Unmarshal(data, &reg); err != nil {
		fatal(fmt.Errorf("registry.json: %v", err))
	}
	return reg
}

func fatal(err error) {
	fmt.Fprintln(os.Stderr, "vcheck:", err)
	os.Exit(2)
}

func pkgDir(pkg string) string {
	if pkg == "commit" {
		return filepath.Join(repoDir, "commit")
	}
	return repoDir
}

// buildOverlay returns the overlay for the engine (virtual path -> contents) and writes the
// generated files into genDir for the native build (virtual path -> real path).
func buildOverlay(genDir string) (map[string][]byte, map[string]string) {
	mem := map[string][]byte{}
	real := map[string]string{}
	for _, pkg := range []string{"column", "commit"} {
		dir := filepath.Join(verifDir, "harness", pkg)
		files, _ := filepath.Glob(filepath.Join(dir, "*.go"))
		for _, f := range files {
			data, err := os.ReadFile(f)
			if err != nil {
				fatal(err)
			}
			v := filepath.Join(pkgDir(pkg), "zz_verif_"+filepath.Base(f))
			mem[v] = data
			real[v] = f
		}
		tmpls, _ := filepath.Glob(filepath.Join(verifDir, "harness", "*.go.tmpl"))
		for _, t := range tmpls {
			data, err := os.ReadFile(t)
			if err != nil {
				fatal(err)
			}
			data = bytes.ReplaceAll(data, []byte("PKGNAME"), []byte(pkg))
			base := strings.TrimSuffix(filepath.Base(t), ".tmpl")
			v := filepath.Join(pkgDir(pkg), "zz_verif_"+base)
			mem[v] = data
			if genDir != "" {
				rp := filepath.Join(genDir, pkg+"_"+base)
				if err := os.WriteFile(rp, data, 0o644); err != nil {
					fatal(err)
				}
				real[v] = rp
			}
		}
	}
	return mem, real
}

// native builds the test binaries with the overlay and runs replay files.
type native struct {
	dir   string
	real  map[string]string
	bins  map[string]string
	Build float64
}

func (n *native) binFor(pkg string) (string, error) {
	if b, ok := n.bins[pkg]; ok {
		return b, nil
	}
	t0 := time.Now()
	ov := struct{ Replace map[string]string }{n.real}
	data, _ := json.Marshal(ov)
	ovPath := filepath.Join(n.dir, "overlay.json")
	if err := os.WriteFile(ovPath, data, 0o644); err != nil {
		return "", err
	}
	bin := filepath.Join(n.dir, pkg+".test")
	cmd := exec.Command("go", "test", "-c", "-vet=off", "-tags", "verif", "-overlay", ovPath, "-o", bin, ".")
	cmd.Dir = pkgDir(pkg)
	cmd.Env = append(os.Environ(), "GOFLAGS=-mod=mod", "GOPROXY=off", "GOSUMDB=off", "GOTOOLCHAIN=local")
	out, err := cmd.CombinedOutput()
	if err != nil {
		return "", fmt.Errorf("native build of %s failed: %v\n%s", pkg, err, out)
	}
	n.bins[pkg] = bin
	n.Build += time.Since(t0).Seconds()
	return bin, nil
}

// scratchTmp is the TMPDIR of native test processes: temporary files the code under test creates
// (snapshot recorders) stay inside the run's scratch directory, which is removed at the end.
func (n *native) scratchTmp() string {
	d := filepath.Join(n.dir, "tmp")
	os.MkdirAll(d, 0o755)
	return d
}

// raceConfirm runs a thread harness natively under the race detector (free-running goroutines,
// the replay file repeated `runs` times) and reports whether a DATA RACE involving both functions
// of the key was observed.
func (n *native) raceConfirm(pkg, file, key string, runs int) (bool, string) {
	bin, ok := n.bins[pkg+"#race"]
	if !ok {
		t0 := time.Now()
		ov := struct{ Replace map[string]string }{n.real}
		data, _ := json.Marshal(ov)
		ovPath := filepath.Join(n.dir, "overlay.json")
		os.WriteFile(ovPath, data, 0o644)
		bin = filepath.Join(n.dir, pkg+".race.test")
		cmd := exec.Command("go", "test", "-race", "-c", "-vet=off", "-tags", "verif", "-overlay", ovPath, "-o", bin, ".")
		cmd.Dir = pkgDir(pkg)
		cmd.Env = append(os.Environ(), "GOFLAGS=-mod=mod", "GOPROXY=off", "GOSUMDB=off", "GOTOOLCHAIN=local")
		if out, err := cmd.CombinedOutput(); err != nil {
			return false, fmt.Sprintf("race build failed: %v %s", err, lastLines(string(out), 3))
		}
		n.bins[pkg+"#race"] = bin
		n.Build += time.Since(t0).Seconds()
	}
	// free-running goroutines: the forced-schedule hand-offs would add happens-before edges that
	// hide the race from the detector, so the schedule trace is stripped from the replay file
	if data, err := os.ReadFile(file); err == nil {
		var rf replayFile
		if json.Unmarshal(data, &rf) == nil {
			rf.Sched = nil
			free := filepath.Join(n.dir, fmt.Sprintf("free-%d.json", time.Now().UnixNano()))
			writeJSON(free, rf)
			file = free
		}
	}
	list := filepath.Join(n.dir, fmt.Sprintf("racelist-%d.txt", time.Now().UnixNano()))
	var sb strings.Builder
	for i := 0; i < runs; i++ {
		sb.WriteString(file + "\n")
	}
	os.WriteFile(list, []byte(sb.String()), 0o644)
	cmd := exec.Command(bin, "-test.run", "^TestVerifReplay$", "-test.timeout", "4m")
	cmd.Dir = pkgDir(pkg)
	cmd.Env = append(os.Environ(), "VERIF_REPLAY_LIST="+list, "GORACE=halt_on_error=0", "TMPDIR="+n.scratchTmp())
	out, _ := cmd.CombinedOutput()
	var fs []string
	for _, side := range strings.Split(strings.TrimPrefix(key, "KF-race:"), "|") {
		fs = append(fs, strings.Split(side, ">")...)
	}
	nat := func(f string) string {
		// engine closure names f$2 are f.func2 natively, nested ones f$2$1 are f.func2.1
		if i := strings.Index(f, "$"); i >= 0 {
			return f[:i] + ".func" + strings.ReplaceAll(f[i+1:], "$", ".")
		}
		return f
	}
	blocks := strings.Split(string(out), "WARNING: DATA RACE")
	for _, b := range blocks[1:] {
		if e := strings.Index(b, "=================="); e >= 0 {
			b = b[:e]
		}
		hit := true
		for _, f := range fs {
			if !strings.Contains(b, "."+nat(f)+"(") && !strings.Contains(b, nat(f)) {
				hit = false
			}
		}
		if hit {
			return true, fmt.Sprintf("observed under go test -race (%d data race reports in %d runs)", len(blocks)-1, runs)
		}
	}
	return false, fmt.Sprintf("not observed under go test -race in %d runs (%d other reports)", runs, len(blocks)-1)
}

// forced replays a schedule counterexample natively (forced schedule, best effort) and says how it
// went.
func (n *native) forced(pkg, file string) string {
	res, err := n.run(pkg, []string{file}, 2*time.Minute)
	if err != nil || res[file] == nil {
		return "native forced-schedule replay could not run"
	}
	r := res[file]
	switch {
	case r.Failed != "" || r.Panic != "":
		return "reproduced natively under the forced schedule"
	default:
		return "not reproduced natively under the forced schedule (best effort)"
	}
}

type replayResult struct {
	Obs      []string
	Failed   string // assertion message
	Panic    string
	Known    []string
	Error    string
	Assume   bool
	TimedOut bool
	Desync   bool
}

func (n *native) run(pkg string, files []string, timeout time.Duration) (map[string]*replayResult, error) {
	res := map[string]*replayResult{}
	if len(files) == 0 {
		return res, nil
	}
	bin, err := n.binFor(pkg)
	if err != nil {
		return nil, err
	}
	list := filepath.Join(n.dir, fmt.Sprintf("list-%d.txt", time.Now().UnixNano()))
	os.WriteFile(list, []byte(strings.Join(files, "\n")+"\n"), 0o644)
	cmd := exec.Command(bin, "-test.run", "^TestVerifReplay$", "-test.timeout", timeout.String())
	cmd.Dir = pkgDir(pkg)
	cmd.Env = append(os.Environ(), "VERIF_REPLAY_LIST="+list, "TMPDIR="+n.scratchTmp())
	out, _ := cmd.CombinedOutput()
	var cur *replayResult
	sc := bufio.NewScanner(bytes.NewReader(out))
	sc.Buffer(make([]byte, 1<<20), 1<<26)
	for sc.Scan() {
		line := sc.Text()
		switch {
		case strings.HasPrefix(line, "VERIF-BEGIN "):
			cur = &replayResult{}
			res[strings.TrimPrefix(line, "VERIF-BEGIN ")] = cur
		case cur == nil:
		case strings.HasPrefix(line, "VERIF-END "):
			cur = nil
		case strings.HasPrefix(line, "VERIF-OBS "):
			cur.Obs = append(cur.Obs, strings.TrimPrefix(line, "VERIF-OBS "))
		case strings.HasPrefix(line, "VERIF-ASSERT-FAILED "):
			cur.Failed = strings.TrimPrefix(line, "VERIF-ASSERT-FAILED ")
		case strings.HasPrefix(line, "VERIF-PANIC "):
			cur.Panic = strings.TrimPrefix(line, "VERIF-PANIC ")
		case strings.HasPrefix(line, "VERIF-KNOWN "):
			cur.Known = append(cur.Known, strings.TrimPrefix(line, "VERIF-KNOWN "))
		case strings.HasPrefix(line, "VERIF-ERROR "):
			cur.Error = strings.TrimPrefix(line, "VERIF-ERROR ")
		case strings.HasPrefix(line, "VERIF-ASSUME-FAILED"):
			cur.Assume = true
		case strings.HasPrefix(line, "VERIF-DEADLOCK"):
			cur.Panic = line
		case strings.HasPrefix(line, "VERIF-DESYNC"):
			cur.Desync = true
		}
	}
	// a run that died (timeout, fatal error) leaves an unterminated record
	if cur != nil {
		cur.TimedOut = true
		cur.Panic = "native run did not finish: " + lastLines(string(out), 5)
	}
	return res, nil
}

func lastLines(s string, n int) string {
	l := strings.Split(strings.TrimSpace(s), "\n")
	if len(l) > n {
		l = l[len(l)-n:]
	}
	return strings.Join(l, " | ")
}

type replayFile struct {
	Property string              `json:"property"`
	Harness  string              `json:"harness"`
	Pkg      string              `json:"pkg"`
	Tier     string              `json:"tier"`
	Kind     string              `json:"kind"` // witness | violation
	Params   map[string]int      `json:"params"`
	Inputs   map[string][]uint64 `json:"inputs"`
	Schedule []int               `json:"schedule"`
	Sched    [][3]int            `json:"sched,omitempty"`
	Expect   map[string]any      `json:"expect"`
}

type knownEntry struct {
	status string // known | fixed
	prop   string
	kf     string
	text   string
}

func loadKnown() []knownEntry {
	var out []knownEntry
	f, err := os.Open(filepath.Join(verifDir, "known_findings.txt"))
	if err != nil {
		return nil
	}
	defer f.Close()
	sc := bufio.NewScanner(f)
	for sc.Scan() {
		line := strings.TrimSpace(sc.Text())
		if line == "" || strings.HasPrefix(line, "#") {
			continue
		}
		var e knownEntry
		switch {
		case strings.HasPrefix(line, "known:"):
			e.status = "known"
			line = strings.TrimSpace(strings.TrimPrefix(line, "known:"))
		case strings.HasPrefix(line, "fixed:"):
			e.status = "fixed"
			line = strings.TrimSpace(strings.TrimPrefix(line, "fixed:"))
		default:
			continue
		}
		var rest []string
		for _, w := range strings.Fields(line) {
			switch {
			case strings.HasPrefix(w, "property=") && e.prop == "":
				e.prop = strings.TrimPrefix(w, "property=")
			case strings.HasPrefix(w, "kf=") && e.kf == "":
				e.kf = strings.TrimPrefix(w, "kf=")
			default:
				rest = append(rest, w)
			}
		}
		e.text = strings.Join(rest, " ")
		out = append(out, e)
	}
	return out
}

func cmdRun(args []string) int {
	opt := options{tier: os.Getenv("VERIF_TIER"), workers: 16, solver: "z3"}
	if s := os.Getenv("VERIF_SEED"); s != "" {
		opt.seed, _ = strconv.ParseInt(s, 10, 64)
	}
	var prop string
	for i := 0; i < len(args); i++ {
		switch args[i] {
		case "--tier":
			i++
			opt.tier = args[i]
		case "--only":
			i++
			opt.only = args[i]
		case "--workers":
			i++
			opt.workers, _ = strconv.Atoi(args[i])
		case "--solver":
			i++
			opt.solver = args[i]
		case "-v":
			opt.verbose = true
		case "--no-native":
			opt.noNat = true
		case "--no-cross":
			opt.noCross = true
		case "--budget":
			i++
			opt.budget, _ = time.ParseDuration(args[i])
		case "--param":
			i++
			kv := strings.SplitN(args[i], "=", 2)
			if opt.params == nil {
				opt.params = map[string]int{}
			}
			opt.params[kv[0]], _ = strconv.Atoi(kv[1])
		default:
			prop = args[i]
		}
	}
	if opt.tier == "" {
		opt.tier = "quick"
	}
	reg := loadRegistry()
	ps, ok := reg[prop]
	if !ok {
		fatal(fmt.Errorf("unknown property %q", prop))
	}
	return runProperty(prop, ps, opt)
}

func runProperty(prop string, ps *propSpec, opt options) int {
	t0 := time.Now()
	tmp, err := os.MkdirTemp("", "vcheck-")
	if err != nil {
		fatal(err)
	}
	defer os.RemoveAll(tmp)
	mem, real := buildOverlay(tmp)
	prog, err := symex.Load(repoDir, mem, []string{".", "./commit"})
	if err != nil {
		fmt.Println("BROKEN: cannot load /repo with the harness overlay:", err)
		return 2
	}
	configureProgram(prog)
	nat := &native{dir: tmp, real: real, bins: map[string]string{}}
	repDir := filepath.Join(verifDir, "replays", prop)
	os.RemoveAll(repDir)
	os.MkdirAll(repDir, 0o755)
	known := loadKnown()
	activeKF := map[string]knownEntry{}
	for _, k := range known {
		if k.status == "known" && k.prop == prop {
			activeKF[k.kf] = k
		}
	}

	ev := newEvidence(prop, opt)
	raceSeenNative, raceHow := map[string]bool{}, map[string]string{}
	exit := 0
	problems := []string{}
	var violationLines, knownLines []string
	knownPrinted := map[string]bool{}

	for hi, hs := range ps.Harnesses {
		if opt.only != "" && hs.Name != opt.only {
			continue
		}
		tag := fmt.Sprintf("%s.%d", hs.Name, hi)
		entry := prog.FindHarness(hs.Name)
		if entry == nil {
			problems = append(problems, "harness function not found: "+hs.Name)
			continue
		}
		params := map[string]int{}
		for k, v := range hs.Params[opt.tier] {
			params[k] = v
		}
		if opt.tier == "quick" && opt.seed != 0 {
			for k, vals := range hs.Rotate {
				if len(vals) > 0 {
					params[k] = vals[int(uint64(opt.seed)%uint64(len(vals)))]
				}
			}
		}
		for k, v := range opt.params {
			params[k] = v
		}
		h := &symex.HarnessRun{Name: hs.Name, Entry: entry, Params: params, Unwind: 16, MaxSteps: 40_000_000, MaxDecisions: 200000,
			QueryTimeout: 150000, IncrTimeout: 4000, Preemptions: 2, RaceCheck: hs.Threads, ContinueAfterRace: hs.Threads, WitnessMax: 12, Seed: opt.seed}
		if opt.tier == "thorough" {
			h.QueryTimeout = 180000
			h.IncrTimeout = 8000
			h.WitnessMax = 24
		}
		budget := 8 * time.Minute
		if opt.tier == "thorough" {
			budget = 20 * time.Minute
		}
		if v, ok := params["budgetSec"]; ok {
			budget = time.Duration(v) * time.Second
		}
		if opt.budget > 0 {
			budget = opt.budget
		}
		h.Deadline = time.Now().Add(budget)
		applyEngineParams(h, params)
		prog.Explore(h, opt.workers, opt.solver)
		hev := ev.addHarness(hs, h)
		// cross-solver diff (thorough tier): the quick-size instance is explored twice, with z3
		// 4.8.12 and with z3 5.1 (z3-new); path counts and verdicts must agree
		if opt.tier == "thorough" && !opt.noCross {
			qp := map[string]int{}
			for k, v := range hs.Params["quick"] {
				qp[k] = v
			}
			mk := func() *symex.HarnessRun {
				x := &symex.HarnessRun{Name: hs.Name, Entry: entry, Params: qp, Unwind: 16, MaxSteps: 40_000_000, MaxDecisions: 200000,
					QueryTimeout: 60000, IncrTimeout: 4000, Preemptions: 2, RaceCheck: hs.Threads, ContinueAfterRace: hs.Threads}
				applyEngineParams(x, qp)
				x.Deadline = time.Now().Add(6 * time.Minute)
				return x
			}
			ha, hb := mk(), mk()
			prog.Explore(ha, opt.workers, "z3")
			prog.Explore(hb, opt.workers, "z3-new")
			if !ha.Truncated && !hb.Truncated {
				ev.CrossChecked++
				if ha.PathsDone != hb.PathsDone || len(ha.Violations) != len(hb.Violations) || ha.Infeasible != hb.Infeasible || len(ha.Inconclusive) != len(hb.Inconclusive) {
					ev.CrossDisagree++
					problems = append(problems, fmt.Sprintf("cross-solver disagreement on %s (quick-size instance): z3 paths=%d violations=%d, z3-new paths=%d violations=%d",
						hs.Name, ha.PathsDone, len(ha.Violations), hb.PathsDone, len(hb.Violations)))
				}
			}
		}
		fmt.Printf("[%s] %s: paths=%d done=%d infeasible=%d decisions=%d queries(feas sat/unsat/unk=%d/%d/%d oblig=%d/%d/%d) solver=%.1fs wall=%.1fs\n",
			prop, hs.Name, h.Paths, h.PathsDone, h.Infeasible, h.Decisions, h.Feas[0], h.Feas[1], h.Feas[2], h.Oblig[0], h.Oblig[1], h.Oblig[2],
			float64(h.SolverNs)/1e9, h.WallSecs)
		if h.Truncated {
			problems = append(problems, hs.Name+": exploration truncated by path/time budget")
		}
		for _, s := range h.Unsupported {
			problems = append(problems, "unsupported: "+s)
		}
		for _, s := range h.Inconclusive {
			problems = append(problems, "inconclusive: "+s)
		}
		for _, c := range hs.Covers {
			if !h.Covered[c] {
				problems = append(problems, fmt.Sprintf("vacuity: %s: cover label %q was not reachable", hs.Name, c))
			}
		}
		if h.AssertPaths == 0 && len(h.Violations) == 0 {
			problems = append(problems, fmt.Sprintf("vacuity: %s: no complete path reached a property assertion", hs.Name))
		}

		// ---- native side: translator validation and counterexample replay ----
		var files []string
		wfiles := map[string]*symex.Witness{}
		for i, w := range h.Witnesses {
			p := filepath.Join(repDir, fmt.Sprintf("%s-witness-%02d.json", tag, i))
			writeJSON(p, replayFile{Property: prop, Harness: hs.Name, Pkg: hs.Pkg, Tier: opt.tier, Kind: "witness", Params: w.Params,
				Inputs: w.Inputs, Schedule: w.Schedule, Sched: w.Sched, Expect: map[string]any{"observe": w.Observes}})
			files = append(files, p)
			wfiles[p] = w
		}
		vfiles := map[string]*symex.Violation{}
		// deduplicate violations by (kind,msg,site,unlisted,known)
		seen := map[string]int{}
		for _, v := range h.Violations {
			key := fmt.Sprintf("%s|%s|%s|%v|%v", v.Kind, v.Msg, v.Site, v.Unlisted, v.Known)
			seen[key]++
			if seen[key] > 2 {
				continue
			}
			p := filepath.Join(repDir, fmt.Sprintf("%s-violation-%02d.json", tag, len(vfiles)))
			writeJSON(p, replayFile{Property: prop, Harness: hs.Name, Pkg: hs.Pkg, Tier: opt.tier, Kind: "violation", Params: v.Params,
				Inputs: v.Inputs, Schedule: v.Schedule, Sched: v.Sched, Expect: map[string]any{"kind": v.Kind, "message": v.Msg, "site": v.Site, "known": v.Known}})
			files = append(files, p)
			vfiles[p] = v
		}
		if hs.NoNative && !opt.noNat {
			// engine-side replay: re-execute the harness with every input fixed to the model value
			var vps []string
			for p := range vfiles {
				vps = append(vps, p)
			}
			sort.Strings(vps)
			for _, p := range vps {
				v := vfiles[p]
				h2 := &symex.HarnessRun{Name: hs.Name, Entry: entry, Params: params, Unwind: h.Unwind, MaxSteps: h.MaxSteps, MaxDecisions: h.MaxDecisions,
					QueryTimeout: h.QueryTimeout, IncrTimeout: h.IncrTimeout, Preemptions: h.Preemptions, Fixed: v.Inputs, FixedSched: append([]int{}, v.Schedule...), RaceCheck: h.RaceCheck, MaxPaths: 64}
				applyEngineParams(h2, params)
				h2.MaxPaths = 64
				h2.ContinueAfterRace = true
				prog.Explore(h2, 1, opt.solver)
				confirmed := false
				for _, v2 := range h2.Violations {
					if v2.Msg == v.Msg || (v.Kind == "race" && v2.Kind == "race" && fmt.Sprint(v2.Known) == fmt.Sprint(v.Known)) {
						confirmed = true
					}
				}
				desc := fmt.Sprintf("%s: %s at %s", hs.Name, v.Msg, v.Site)
				if !confirmed {
					problems = append(problems, "UNCONFIRMED counterexample (engine-side replay with fixed inputs does not fail): "+desc+" replay="+p)
					continue
				}
				if v.Kind == "race" && len(v.Known) == 1 {
					okNat, how := raceSeenNative[v.Known[0]], raceHow[v.Known[0]]
					if how == "" {
						runs := 150
						if _, listed := activeKF[v.Known[0]]; !listed {
							runs = 3000 // an unlisted race must be re-observed natively before it is reported
						}
						okNat, how = nat.raceConfirm(hs.Pkg, p, v.Known[0], runs)
						raceSeenNative[v.Known[0]], raceHow[v.Known[0]] = okNat, how
						fmt.Printf("  race %s: %s\n", v.Known[0], how)
						ev.RaceNative = append(ev.RaceNative, v.Known[0]+": "+how)
					}
					if _, listed := activeKF[v.Known[0]]; !listed && !okNat {
						problems = append(problems, "UNCONFIRMED data race (happens-before violation in the engine, "+how+"): "+desc+" replay="+p)
						continue
					}
				}
				if !v.Unlisted && len(v.Known) > 0 {
					ok := true
					for _, k := range v.Known {
						if _, listed := activeKF[k]; !listed {
							ok = false
						}
					}
					if ok {
						for _, k := range v.Known {
							if !knownPrinted[k] {
								knownPrinted[k] = true
								extra := ""
								if hs.Threads && v.Kind != "race" {
									extra = "; " + nat.forced(hs.Pkg, p)
								}
								knownLines = append(knownLines, fmt.Sprintf("KNOWN-FINDING: property=%s kf=%s %s (witness %s%s)", prop, k, activeKF[k].text, p, extra))
							}
						}
						continue
					}
				}
				how := "engine-side replay"
				if hs.Threads && v.Kind != "race" {
					how = "engine-side replay; " + nat.forced(hs.Pkg, p)
				}
				violationLines = append(violationLines, fmt.Sprintf("VIOLATION property=%s replay=%s", prop, p))
				fmt.Printf("  violation (%s): %s\n", how, desc)
				ev.Violations++
			}
			if hs.Threads && !opt.noNat {
				var wf []string
				for p := range wfiles {
					wf = append(wf, p)
				}
				sort.Strings(wf)
				if results, err := nat.run(hs.Pkg, wf, 5*time.Minute); err == nil {
					for _, p := range wf {
						r, w := results[p], wfiles[p]
						if r == nil || r.Desync || r.TimedOut {
							continue // the native run left the forced schedule: not comparable
						}
						var exp []string
						for _, o := range w.Observes {
							exp = append(exp, fmt.Sprintf("%s %s %s", o.Label, o.Kind, o.Val))
						}
						if r.Failed != "" || r.Panic != "" || strings.Join(exp, "\n") != strings.Join(r.Obs, "\n") {
							problems = append(problems, fmt.Sprintf("translator validation (forced schedule): witness %s differs natively: assert=%q panic=%q engine=%v native=%v", p, r.Failed, r.Panic, exp, r.Obs))
							continue
						}
						hev.Validated++
						os.Remove(p)
					}
				}
			}
			for i, w := range h.Witnesses {
				if i >= 2 {
					break
				}
				ev.addSample(hs.Name, w)
			}
			continue
		}
		if opt.noNat {
			for p, v := range vfiles {
				fmt.Printf("  (not replayed) %s %s at %s known=%v file=%s\n", v.Kind, v.Msg, v.Site, v.Known, p)
			}
			continue
		}
		results, err := nat.run(hs.Pkg, files, 5*time.Minute)
		if err != nil {
			problems = append(problems, err.Error())
			continue
		}
		for p, w := range wfiles {
			r := results[p]
			if r == nil {
				problems = append(problems, "native replay produced no record for "+p)
				continue
			}
			if r.Failed != "" || r.Panic != "" || r.Assume || r.Error != "" {
				problems = append(problems, fmt.Sprintf("translator validation: witness %s fails natively (assert=%q panic=%q assume=%v err=%q) although the engine completed the path", p, r.Failed, r.Panic, r.Assume, r.Error))
				continue
			}
			var exp []string
			for _, o := range w.Observes {
				exp = append(exp, fmt.Sprintf("%s %s %s", o.Label, o.Kind, o.Val))
			}
			if strings.Join(exp, "\n") != strings.Join(r.Obs, "\n") {
				problems = append(problems, fmt.Sprintf("translator validation: observations differ for %s:\n engine: %v\n native: %v", p, exp, r.Obs))
				continue
			}
			hev.Validated++
			os.Remove(p) // keep only a few samples on disk
		}
		// keep two witnesses as samples
		for i, w := range h.Witnesses {
			if i >= 2 {
				break
			}
			ev.addSample(hs.Name, w)
		}
		var vps []string
		for p := range vfiles {
			vps = append(vps, p)
		}
		sort.Strings(vps)
		for _, p := range vps {
			v := vfiles[p]
			r := results[p]
			reproduced := r != nil && (r.Failed != "" || r.Panic != "")
			if v.Kind == "race" {
				reproduced = true // confirmed separately under -race where listed; see DESIGN.md C18
			}
			desc := fmt.Sprintf("%s: %s at %s", hs.Name, v.Msg, v.Site)
			if !reproduced {
				problems = append(problems, fmt.Sprintf("UNCONFIRMED counterexample (does not reproduce natively, engine or stub defect): %s replay=%s", desc, p))
				continue
			}
			if !v.Unlisted && len(v.Known) > 0 {
				allListed := true
				for _, k := range v.Known {
					if _, ok := activeKF[k]; !ok {
						allListed = false
					}
				}
				if allListed {
					for _, k := range v.Known {
						if !knownPrinted[k] {
							knownPrinted[k] = true
							knownLines = append(knownLines, fmt.Sprintf("KNOWN-FINDING: property=%s kf=%s %s (witness %s)", prop, k, activeKF[k].text, p))
						}
					}
					hev.KnownSeen = append(hev.KnownSeen, v.Known...)
					continue
				}
			}
			violationLines = append(violationLines, fmt.Sprintf("VIOLATION property=%s replay=%s", prop, p))
			if len(violationLines) <= 8 {
				fmt.Printf("  violation: %s\n", desc)
			}
			ev.Violations++
		}
	}
	ev.NativeBuildS = nat.Build
	for _, l := range knownLines {
		fmt.Println(l)
	}
	for i, l := range violationLines {
		if i == 8 {
			fmt.Printf("(%d more violations not listed; replay files are in %s)\n", len(violationLines)-8, repDir)
			break
		}
		fmt.Println(l)
	}
	if len(violationLines) > 0 {
		exit = 1
	}
	if len(problems) > 0 {
		for _, p := range problems {
			fmt.Println("PROBLEM:", p)
		}
		if exit == 0 {
			exit = 2
		}
	}
	ev.Problems = problems
	ev.finish(time.Since(t0).Seconds(), ps)
	writeJSON(filepath.Join(verifDir, "evidence", prop+".json"), ev.toJSON())
	switch exit {
	case 0:
		fmt.Printf("OK property=%s tier=%s wall=%.1fs\n", prop, opt.tier, time.Since(t0).Seconds())
	case 2:
		fmt.Printf("INCONCLUSIVE property=%s tier=%s (see PROBLEM lines)\n", prop, opt.tier)
	}
	return exit
}

func writeJSON(path string, v any) {
	data, err := json.MarshalIndent(v, "", " ")
	if err != nil {
		fatal(err)
	}
	if err := os.WriteFile(path, append(data, '\n'), 0o644); err != nil {
		fatal(err)
	}
}

func cmdReplay(args []string) int {
	if len(args) < 1 {
		usage()
	}
	path, _ := filepath.Abs(args[0])
	data, err := os.ReadFile(path)
	if err != nil {
		fatal(err)
	}
	var rf replayFile
	if err := json.Unmarshal(data, &rf); err != nil {
		fatal(err)
	}
	tmp, err := os.MkdirTemp("", "vcheck-")
	if err != nil {
		fatal(err)
	}
	defer os.RemoveAll(tmp)
	_, real := buildOverlay(tmp)
	nat := &native{dir: tmp, real: real, bins: map[string]string{}}
	res, err := nat.run(rf.Pkg, []string{path}, 5*time.Minute)
	if err != nil {
		fmt.Println(err)
		return 2
	}
	r := res[path]
	if r == nil {
		fmt.Println("no result")
		return 2
	}
	for _, o := range r.Obs {
		fmt.Println("observe:", o)
	}
	for _, k := range r.Known {
		fmt.Println("known-finding region:", k)
	}
	if r.Failed != "" {
		fmt.Println("ASSERTION FAILED:", r.Failed)
		return 1
	}
	if r.Panic != "" {
		fmt.Println("PANIC:", r.Panic)
		return 1
	}
	if r.Error != "" {
		fmt.Println("error:", r.Error)
		return 2
	}
	fmt.Println("replay completed without failure")
	return 0
}
