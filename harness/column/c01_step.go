//go:build verif

package column

import (
	"math"

	"github.com/kelindar/column/commit"
)

func init() {
	vndRegister("VerifC01ApplyStep", VerifC01ApplyStep)
}

// vLoadCell reads a cell straight from a column implementation (no transaction).
func vLoadCell(col Column, k vKind, idx uint32) (c vCell) {
	v, ok := col.Value(idx)
	if k == vBool {
		if col.Contains(idx) {
			c.has, c.num = true, 1
		}
		return
	}
	if !ok {
		return
	}
	c.has = true
	switch x := v.(type) {
	case int:
		c.num = uint64(x)
	case int16:
		c.num = uint64(uint16(x))
	case int32:
		c.num = uint64(uint32(x))
	case int64:
		c.num = uint64(x)
	case uint:
		c.num = uint64(x)
	case uint16:
		c.num = uint64(x)
	case uint32:
		c.num = uint64(x)
	case uint64:
		c.num = x
	case float32:
		c.num = uint64(math.Float32bits(x))
	case float64:
		c.num = math.Float64bits(x)
	case string:
		c.str = x
	case *vRec:
		c.str = string(x.b)
	default:
		vndAssert(false, "Value returned an unexpected dynamic type")
	}
	return
}

// vPutTyped writes one operation into a commit buffer the way the typed writers do.
func vPutTyped(buf *commit.Buffer, k vKind, op commit.OpType, off uint32, num uint64, str string) {
	switch k {
	case vInt:
		buf.PutInt(op, off, int(num))
	case vInt16:
		buf.PutInt16(op, off, int16(num))
	case vInt32:
		buf.PutInt32(op, off, int32(num))
	case vInt64:
		buf.PutInt64(op, off, int64(num))
	case vUint:
		buf.PutUint(op, off, uint(num))
	case vUint16:
		buf.PutUint16(op, off, uint16(num))
	case vUint32:
		buf.PutUint32(op, off, uint32(num))
	case vUint64:
		buf.PutUint64(op, off, num)
	case vFloat32:
		buf.PutFloat32(op, off, math.Float32frombits(uint32(num)))
	case vFloat64:
		buf.PutFloat64(op, off, math.Float64frombits(num))
	case vBool:
		buf.PutBool(off, num&1 == 1)
	case vString, vEnum, vStringCat, vRecord:
		buf.PutString(op, off, str)
	}
}

// VerifC01ApplyStep: a column of one block receives K operations (put / merge / delete) at
// ARBITRARY offsets of that block with arbitrary values through the real two-level Apply; every
// touched row and one arbitrary untouched row then read back exactly what the model says.
// A merge into a row without a value merges into the zero value.
func VerifC01ApplyStep() {
	k := vPickKind(vndParam("kinds"))
	K := vndParam("K")
	blk := uint32(vndParam("block"))
	chunk := commit.Chunk(blk)
	impl := vMakeColumn(k)
	col := columnFor("a", impl)
	col.Grow(chunk.Max())

	// optional pre-state: a row that held a value and was deleted (what offset reuse leaves behind)
	r := commit.NewReader()
	if vndParam("stale") == 1 && k != vBool {
		p := blk<<14 | uint32(vndU16("poff"))&0x3fff
		pre := commit.NewBuffer(32)
		pre.Reset("a")
		num, str := vInput(k, 1)
		vPutTyped(pre, k, commit.Put, p, num, str)
		pre.PutOperation(commit.Delete, p)
		r.Range(pre, chunk, func(r *commit.Reader) {
			col.Apply(chunk, r)
		})
		vSameCell(vLoadCell(impl, k, p), vCell{}, k, "deleted row")
	}

	buf := commit.NewBuffer(64)
	buf.Reset("a")
	var offs [4]uint32
	var model [4]vCell // model of the row of op i after ops 0..i
	for i := 0; i < K; i++ {
		offs[i] = blk<<14 | uint32(vndU16("off"))&0x3fff
		// the state of this row before op i
		var cur vCell
		for j := 0; j < i; j++ {
			if offs[j] == offs[i] {
				cur = model[j]
			}
		}
		nops := 3
		if !vCanMerge(k) {
			nops = 2
		}
		switch vndChoice("op", nops) {
		case 0: // put
			num, str := vInput(k, 1)
			vPutTyped(buf, k, commit.Put, offs[i], num, str)
			model[i] = vModelSet(k, num, str)
		case 1: // delete
			buf.PutOperation(commit.Delete, offs[i])
			model[i] = vCell{}
		case 2: // merge
			num, str := vInput(k, 1)
			vPutTyped(buf, k, commit.Merge, offs[i], num, str)
			model[i] = vModelMerge(k, cur, num, str)
		}
	}

	// the real commit path for one column: Range over the block, wrapper Apply, typed Apply
	r.Range(buf, chunk, func(r *commit.Reader) {
		col.Apply(chunk, r)
	})

	for i := 0; i < K; i++ {
		// the final state of the row of op i is the model of the LAST op on that offset
		want := model[i]
		for j := i + 1; j < K; j++ {
			if offs[j] == offs[i] {
				want = model[j]
			}
		}
		vSameCell(vLoadCell(impl, k, offs[i]), want, k, "touched row")
	}
	// frame condition: an arbitrary other row of the block holds nothing
	q := blk<<14 | uint32(vndU16("q"))&0x3fff
	for i := 0; i < K; i++ {
		vndAssume(q != offs[i])
	}
	if vndParam("stale") != 1 {
		vSameCell(vLoadCell(impl, k, q), vCell{}, k, "untouched row")
	}

	// what later consumers of the same buffer see: every merge has become a put of the stored value
	if vIsNumeric(k) {
		i := 0
		r.Range(buf, chunk, func(r *commit.Reader) {
			for r.Next() {
				vndAssert(i < K, "second pass sees more operations")
				vndAssert(r.Index() == offs[i], "second pass: offset differs")
				if r.Type != commit.Delete {
					vndAssert(r.Type == commit.Put, "second pass: merge was not rewritten to put")
					var got uint64
					switch vMask(k) {
					case 0xffff:
						got = uint64(r.Uint16())
					case 0xffffffff:
						got = uint64(r.Uint32())
					default:
						got = r.Uint64()
					}
					vndAssert(got == model[i].num, "second pass: value is not the stored result")
				}
				i++
			}
		})
		vndAssert(i == K, "second pass sees fewer operations")
	}
	vndObserve("k", uint64(k))
	vndObserve("off0", uint64(offs[0]))
	c0 := vLoadCell(impl, k, offs[0])
	vndObserveBool("has0", c0.has)
	vndObserve("num0", c0.num)
}
