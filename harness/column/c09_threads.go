//go:build verif

package column

import (
	"sync"

	"github.com/kelindar/column/commit"
)

func init() {
	vndRegister("VerifC09Merges", VerifC09Merges)
}

// vBlockLogger records, per commit, the block, the ID and the absolute values of column a that the
// commit carries (what stream and snapshot consumers see after merges were rewritten).
type vBlockLogger struct {
	mu     sync.Mutex // a logger is called from several blocks' commits at once
	clones []commit.Commit
	ids    []uint64
	chunks []commit.Chunk
	offs   []uint32
	vals   []uint64
}

func (l *vBlockLogger) Append(c commit.Commit) error {
	l.mu.Lock()
	defer l.mu.Unlock()
	l.ids = append(l.ids, c.ID)
	l.chunks = append(l.chunks, c.Chunk)
	l.clones = append(l.clones, c.Clone())
	r := commit.NewReader()
	for _, u := range c.Updates {
		if u.Column != "a" {
			continue
		}
		r.Range(u, c.Chunk, func(r *commit.Reader) {
			for r.Next() {
				l.offs = append(l.offs, r.Index())
				l.vals = append(l.vals, r.Uint64())
				vndAssert(r.Type == commit.Put, "a commit reached the logger with an un-rewritten merge")
			}
		})
	}
	return nil
}

// VerifC09Merges: N transactions on N goroutines merge arbitrary deltas into the same rows of one
// or two blocks, switching at the commit-protocol yield points (every schedule within the
// preemption bound). The final value of each row is the initial value plus every delta exactly
// once; the chain of absolute values that reached the logger for a row is the sequence of prefix
// sums in apply order; IDs of a block increase in apply order; no deadlock, no data race.
func VerifC09Merges() {
	lg := &vBlockLogger{}
	w := vNewWorld(vndParam("cap"), vInt64, vndParam("fam"), Options{Writer: lg})
	N := vndParam("N")
	two := vndParam("twoBlocks") == 1
	r0, r1 := w.off[0], w.off[1] // fam 2: rows 16383 (block 0) and 16384 (block 1)
	init0, init1 := vndU64("init"), vndU64("init")
	w.c.Query(func(txn *Txn) error {
		txn.QueryAt(r0, func(r Row) error { r.SetInt64("a", int64(init0)); return nil })
		txn.QueryAt(r1, func(r Row) error { r.SetInt64("a", int64(init1)); return nil })
		return nil
	})
	seen := len(lg.ids)
	nvals := len(lg.vals)
	var d0, d1 [4]uint64
	var tid [4]int
	for i := 0; i < N; i++ {
		i := i
		d0[i], d1[i] = vndU64("delta"), vndU64("delta")
		tid[i] = vndGo(func() {
			w.c.Query(func(txn *Txn) error {
				txn.QueryAt(r0, func(r Row) error { r.MergeInt64("a", int64(d0[i])); return nil })
				if two {
					txn.QueryAt(r1, func(r Row) error { r.MergeInt64("a", int64(d1[i])); return nil })
				}
				return nil
			})
		})
	}
	// a reader beside the writers: whatever it sees is the initial value plus a subset of deltas
	// (checked below only for the final state); it must not block or race
	rd := vndGo(func() {
		w.c.QueryAt(r0, func(r Row) error {
			_, ok := r.Int64("a")
			vndAssert(ok, "reader: the row lost its value")
			return nil
		})
	})
	for i := 0; i < N; i++ {
		vndJoin(tid[i])
	}
	vndJoin(rd)

	sum0, sum1 := init0, init1
	for i := 0; i < N; i++ {
		sum0 += d0[i]
		if two {
			sum1 += d1[i]
		}
	}
	w.c.QueryAt(r0, func(r Row) error {
		v, ok := r.Int64("a")
		vndAssert(ok && uint64(v) == sum0, "a concurrent merge was lost or applied twice (block 0)")
		return nil
	})
	w.c.QueryAt(r1, func(r Row) error {
		v, ok := r.Int64("a")
		vndAssert(ok && uint64(v) == sum1, "a concurrent merge was lost or applied twice (block 1)")
		return nil
	})

	// the stream: per row the absolute values are prefix sums in apply order, the last one is final
	var last0, last1 uint64
	n0, n1 := 0, 0
	for k := nvals; k < len(lg.vals); k++ {
		if lg.offs[k] == r0 {
			last0 = lg.vals[k]
			n0++
		}
		if lg.offs[k] == r1 {
			last1 = lg.vals[k]
			n1++
		}
	}
	vndAssert(n0 == N, "the stream does not carry one value per merge for the row of block 0")
	vndAssert(last0 == sum0, "the last streamed value of the row is not its final value")
	if two {
		vndAssert(n1 == N && last1 == sum1, "stream of the row of block 1")
	}
	// IDs: distinct, non-zero, increasing per block in the order they reached the logger
	var lastID [2]uint64
	for k := seen; k < len(lg.ids); k++ {
		vndAssert(lg.ids[k] != 0, "commit ID is zero")
		b := 0
		if lg.chunks[k] != commit.ChunkAt(r0) {
			b = 1
		}
		vndAssert(lg.ids[k] > lastID[b], "commit IDs of a block do not increase in the order the commits were applied")
		lastID[b] = lg.ids[k]
	}
	// C06: a replica fed the stream in emission order converges to the primary
	replica := vNewWorld(vndParam("cap"), vInt64, 0, Options{})
	for _, c := range lg.clones {
		vndAssert(replica.c.Replay(c) == nil, "replay failed")
	}
	vndAssert(replica.c.Count() == w.c.Count(), "replica Count differs from the primary")
	replica.c.QueryAt(r0, func(r Row) error {
		v, ok := r.Int64("a")
		vndAssert(ok && uint64(v) == sum0, "replica diverged from the primary (block 0)")
		return nil
	})
	replica.c.QueryAt(r1, func(r Row) error {
		v, ok := r.Int64("a")
		vndAssert(ok && uint64(v) == sum1, "replica diverged from the primary (block 1)")
		return nil
	})
	vndObserve("sum0", sum0)
}

func init() { vndRegister("VerifC09RecordMerges", VerifC09RecordMerges) }

// VerifC09RecordMerges: record columns merge by decoding the stored value and the delta, calling
// the user's merge function and encoding the result. Two goroutines merge arbitrary records
// into rows of two different blocks (their commits hold different block latches, so the merge
// functions may run side by side), a third merges into the row of block 0 as well. Each row ends
// up as its initial content followed by every delta merged into it (the merge function appends),
// in apply order; no data race between the merges.
func VerifC09RecordMerges() {
	c := NewCollection(Options{Capacity: vndParam("cap")})
	// the merge function is not the identity on an empty value: merge(v, d) = v + "|" + d
	c.CreateColumn("r", ForRecord(func() *vRec { return new(vRec) }, WithMerge(func(v, d *vRec) *vRec {
		v.b = append(append(v.b, '|'), d.b...)
		return v
	})))
	rows := [2]uint32{16383, 16384}
	L := vndParam("maxLen")
	var init [2]string
	for i := range rows {
		init[i] = vndString("init", L)
	}
	c.fill.Grow(rows[1])
	c.fill.Set(rows[0])
	c.fill.Set(rows[1])
	c.count = 2
	c.Query(func(txn *Txn) error {
		for i, r := range rows {
			i := i
			txn.QueryAt(r, func(Row) error { return txn.Record("r").Set(&vRec{b: []byte(init[i])}) })
		}
		return nil
	})
	N := vndParam("N") // thread i merges into row i%2
	var d [3]string
	var tid [3]int
	for i := 0; i < N; i++ {
		i := i
		d[i] = vndString("delta", L)
		tid[i] = vndGo(func() {
			c.QueryAt(rows[i%2], func(Row) error { return nil })
			c.Query(func(txn *Txn) error {
				return txn.QueryAt(rows[i%2], func(Row) error { return txn.Record("r").Merge(&vRec{b: []byte(d[i])}) })
			})
		})
	}
	for i := 0; i < N; i++ {
		vndJoin(tid[i])
	}
	var got [2]string
	c.Query(func(txn *Txn) error {
		for i, r := range rows {
			i := i
			txn.QueryAt(r, func(Row) error {
				v, ok := txn.Record("r").Get()
				vndAssert(ok, "the record lost its value")
				got[i] = string(v.(*vRec).b)
				return nil
			})
		}
		return nil
	})
	vndAssert(got[1] == init[1]+"|"+d[1], "record of block 1 is not its initial value merged with its delta")
	if N < 3 {
		vndAssert(got[0] == init[0]+"|"+d[0], "record of block 0 is not its initial value merged with its delta")
	} else {
		vndAssert(got[0] == init[0]+"|"+d[0]+"|"+d[2] || got[0] == init[0]+"|"+d[2]+"|"+d[0], "record of block 0 is not its initial value merged with both deltas in some order")
	}
	// a row that holds no record yet: the first merge still goes through the merge function
	fresh, _ := c.Insert(func(Row) error { return nil })
	df := vndString("delta", L)
	c.Query(func(txn *Txn) error {
		return txn.QueryAt(fresh, func(Row) error { return txn.Record("r").Merge(&vRec{b: []byte(df)}) })
	})
	c.Query(func(txn *Txn) error {
		return txn.QueryAt(fresh, func(Row) error {
			v, ok := txn.Record("r").Get()
			vndAssert(ok && string(v.(*vRec).b) == "|"+df, "a merge into a row without a value did not go through the merge function")
			return nil
		})
	})
	vndObserveStr("r0", got[0])
	vndObserveStr("r1", got[1])
}
