//go:build verif

package column

func init() {
	vndRegister("VerifC12Keys", VerifC12Keys)
}

const vMaxKeys = 3

func vKeyName(i int) string {
	switch i {
	case 0:
		return "a"
	case 1:
		return "bb"
	}
	return ""
}

// VerifC12Keys: a history of key operations over a small alphabet (repeats forced) against a map
// model. Every return value, every lookup, the one-row-per-key invariant and Count are compared
// after each transaction. Values written through the key are arbitrary (symbolic).
func VerifC12Keys() {
	A := vndParam("alphabet")
	c := NewCollection(Options{Capacity: vndParam("cap")})
	c.CreateColumn("k", ForKey())
	c.CreateColumn("b", ForInt64())
	dense := 0
	if vndParam("dense") == 1 {
		// P-dense: block 0 is completely occupied by anonymous rows, so keyed rows live in block 1
		c.fill.Grow(16383)
		for i := 0; i < 256; i++ {
			c.fill[i] = ^uint64(0)
		}
		c.count = 16384
		dense = 16384
	}
	var has [vMaxKeys]bool
	var val [vMaxKeys]uint64
	var hasVal [vMaxKeys]bool
	n := 0
	T, M := vndParam("T"), vndParam("M")
	if vndParam("prefix") == 1 {
		// P-stale: a concrete pre-history that leaves freed offsets behind which still hold the key
		// they had (the key column does not clear its data on delete); the symbolic history then
		// starts from that state. Which pre-history is used is a symbolic choice.
		ins := func(k int) { vndAssert(c.InsertKey(vKeyName(k), func(Row) error { return nil }) == nil, "prefix insert") }
		del := func(k int) { vndAssert(c.DeleteKey(vKeyName(k)) == nil, "prefix delete") }
		switch vndChoice("prefix", 4) {
		case 0: // offsets 0 and 1 free, holding "a" and "bb"
			ins(0)
			ins(1)
			del(0)
			del(1)
		case 1: // offset 0 free holding "a", "bb" live at 1
			ins(0)
			ins(1)
			del(0)
			has[1] = true
		case 2: // offsets 0 and 1 free, holding "bb" and "a"
			ins(1)
			ins(0)
			del(1)
			del(0)
		case 3: // "a" live at 0, offset 1 free holding "bb"
			ins(0)
			ins(1)
			del(1)
			has[0] = true
		}
	}
	for t := 0; t < T; t++ {
		abort := vndParam("aborts") == 1 && vndChoice("abort", 2) == 1
		// Inside a transaction every key operation sees the COMMITTED table (has); its effects are
		// collected in fin* and become the new table at commit.
		finHas, finVal, finHasVal := has, val, hasVal
		var creates [vMaxKeys]int
		twice := false
		err := c.Query(func(txn *Txn) error {
			for i := 0; i < M; i++ {
				k := vndChoice("key", A)
				key := vKeyName(k)
				v := vndU64("v")
				set := func(r Row) error {
					r.SetInt64("b", int64(v))
					return nil
				}
				switch vndChoice("kop", 6) {
				case 0:
					err := txn.InsertKey(key, set)
					vndAssert((err != nil) == has[k], "InsertKey must fail if and only if the key exists")
					if err == nil {
						creates[k]++
						finHas[k], finVal[k], finHasVal[k] = true, v, true
					}
				case 1:
					err := txn.UpsertKey(key, set)
					vndAssert(err == nil, "UpsertKey failed")
					if !has[k] {
						creates[k]++
					}
					if finHas[k] || !has[k] {
						finHas[k], finVal[k], finHasVal[k] = true, v, true
					}
				case 2:
					err := txn.QueryKey(key, func(r Row) error { return nil })
					vndAssert((err != nil) == !has[k], "QueryKey must fail if and only if the key is absent")
				case 3:
					err := txn.DeleteKey(key)
					vndAssert((err != nil) == !has[k], "DeleteKey must fail if and only if the key is absent")
					if err == nil {
						finHas[k], finHasVal[k] = false, false
					}
				case 4: // re-key: move key k to key k2 (one re-key per transaction, on otherwise untouched keys)
					k2 := vndChoice("key2", A)
					if k2 == k || i != M-1 || finHas != has || finVal != val || creates != [vMaxKeys]int{} {
						break // re-key only as the last operation of a transaction without other effects
					}
					err := txn.QueryKey(key, func(r Row) error {
						r.SetKey(vKeyName(k2))
						return nil
					})
					vndAssert((err != nil) == !has[k], "QueryKey (re-key) must fail iff the key is absent")
					if err == nil && !has[k2] {
						finHas[k2], finVal[k2], finHasVal[k2] = true, val[k], hasVal[k]
						finHas[k], finHasVal[k] = false, false
					}
				case 5: // re-key from inside the callback of an UpsertKey of an existing key
					k2 := vndChoice("key2", A)
					if !has[k] || k2 == k || i != M-1 || finHas != has || finVal != val || creates != [vMaxKeys]int{} {
						break
					}
					err := txn.UpsertKey(key, func(r Row) error {
						r.SetKey(vKeyName(k2))
						return nil
					})
					vndAssert(err == nil, "UpsertKey (re-key) failed")
					if !has[k2] {
						finHas[k2], finVal[k2], finHasVal[k2] = true, val[k], hasVal[k]
						finHas[k], finHasVal[k] = false, false
					}
				}
				for q := range creates {
					if creates[q] > 1 {
						twice = true // KF-key-check-then-act: existence is checked against committed state only
					}
				}
				vndKnown("KF-key-check-then-act", twice)
			}
			if abort {
				return vErrAbort
			}
			return nil
		})
		vndAssert((err != nil) == abort, "Query result")
		if abort {
			anyCreated := false
			for i := range creates {
				if creates[i] > 0 {
					anyCreated = true
				}
			}
			// a rolled-back transaction that inserted rows leaves them behind (C02, KF-rollback-insert)
			vndKnown("KF-rollback-insert", anyCreated)
		} else {
			has, val, hasVal = finHas, finVal, finHasVal
		}
		n = 0
		for k := 0; k < A; k++ {
			if has[k] {
				n++
			}
		}

		// ---- the collection is a map from key to one row ----
		vndAssert(c.Count() == n+dense, "Count differs from the number of keys")
		for k := 0; k < A; k++ {
			key := vKeyName(k)
			found := false
			err := c.QueryKey(key, func(r Row) error {
				found = true
				got, ok := r.Key()
				vndAssert(ok && got == key, "lookup by key reached a row holding another key")
				b, okb := r.Int64("b")
				vndAssert(okb == hasVal[k], "value presence behind the key")
				if okb {
					vndAssert(uint64(b) == val[k], "value behind the key")
				}
				return nil
			})
			vndAssert(found == has[k] && (err == nil) == has[k], "key resolves if and only if it exists")
		}
		// one live row per key, and every live row's key is in the model
		var seen [vMaxKeys]int
		if dense > 0 {
			continue
		}
		c.Query(func(txn *Txn) error {
			return txn.Range(func(idx uint32) {
				key, ok := txn.Key().Get()
				vndAssert(ok, "a live row without a key")
				hit := false
				for k := 0; k < A; k++ {
					if key == vKeyName(k) {
						seen[k]++
						hit = true
					}
				}
				vndAssert(hit, "a live row with an unknown key")
			})
		})
		for k := 0; k < A; k++ {
			want := 0
			if has[k] {
				want = 1
			}
			vndAssert(seen[k] == want, "number of live rows holding the key")
		}
	}
	vndObserve("n", uint64(n))
	vndObserve("count", uint64(c.Count()))
}

func init() { vndRegister("VerifC12RacingUpserts", VerifC12RacingUpserts) }

// VerifC12RacingUpserts (C12-H2): two goroutines upsert / insert the SAME absent key, switching
// between the existence check and the insert (yield point 9) and at the commit-protocol points.
// At most one live row may hold the key afterwards, and the key must resolve to it.
func VerifC12RacingUpserts() {
	c := NewCollection(Options{Capacity: vndParam("cap")})
	c.CreateColumn("k", ForKey())
	c.CreateColumn("b", ForInt64())
	var errs [2]error
	var t [2]int
	for i := 0; i < 2; i++ {
		i := i
		useInsert := vndChoice("insert", 2) == 1
		t[i] = vndGo(func() {
			set := func(r Row) error { r.SetInt64("b", int64(10+i)); return nil }
			if useInsert {
				errs[i] = c.InsertKey("a", set)
			} else {
				errs[i] = c.UpsertKey("a", set)
			}
		})
	}
	vndJoin(t[0])
	vndJoin(t[1])
	// KF-key-check-then-act (racing form): both goroutines may pass the existence check before
	// either commits
	vndKnown("KF-key-check-then-act", true)
	n := 0
	c.Query(func(txn *Txn) error {
		return txn.Range(func(idx uint32) {
			if k, ok := txn.Key().Get(); ok && k == "a" {
				n++
			}
		})
	})
	vndAssert(n == 1, "racing upserts/inserts of one key left a different number of live rows than one")
	vndAssert(c.Count() == 1, "Count after racing upserts of one key")
	vndAssert(c.QueryKey("a", func(r Row) error { return nil }) == nil, "the key does not resolve")
	vndObserve("n", uint64(n))
}
