//go:build verif

package column

import "github.com/kelindar/column/commit"

func init() {
	vndRegister("VerifC15Stream", VerifC15Stream)
}

// VerifC15Stream (sequential part of C15, and C06-H1): a history of committed, rolled-back and
// read-only transactions over one or several blocks. After each transaction the emitted commits
// are exactly one per changed block with fresh, increasing, non-zero IDs; replaying them on a
// replica makes the replica equal to the model (and hence to the primary).
func VerifC15Stream() {
	kind := vPickKind(vndParam("kinds"))
	st := vNewStream(vndParam("channel") == 1)
	w := vNewWorld(vndParam("cap"), kind, vndParam("fam"), Options{Writer: st.logger()})
	// the seeding commits are replayed, hence re-emitted: they are part of the stream
	replica := vNewWorld(vndParam("cap"), kind, 0, Options{})
	lastID := map[commit.Chunk]uint64{}
	var allIDs []uint64
	for _, c := range st.drain() {
		allIDs = append(allIDs, c.ID)
		lastID[c.Chunk] = c.ID
		vndAssert(replica.c.Replay(c) == nil, "replay failed")
	}
	lag := vndParam("lag") == 1
	var backlog []commit.Commit
	T, M := vndParam("T"), vndParam("M")
	menu, maxLen := vndParam("menu"), vndParam("maxLen")
	for t := 0; t < T; t++ {
		mode := vndChoice("mode", 3) // 0 commit, 1 roll back, 2 read only
		var want []commit.Chunk
		err := w.c.Query(func(txn *Txn) error {
			switch mode {
			case 0:
				for i := 0; i < M; i++ {
					w.oneOp(txn, menu, maxLen)
				}
				want = w.pendingBlocks()
				return nil
			case 1:
				for i := 0; i < M; i++ {
					w.oneOp(txn, menu&^(16|32|64), maxLen) // no inserts in a transaction that rolls back (see C02)
				}
				return vErrAbort
			default:
				n := 0
				txn.Range(func(idx uint32) { n++ })
				vndAssert(n == w.count, "read-only transaction sees a different number of rows")
				return nil
			}
		})
		vndAssert((err != nil) == (mode == 1), "Query error does not match the callback's")
		if mode == 0 {
			vndKnown("KF-merge-reorder", w.mergeReorder())
			w.commitModel()
		} else {
			w.clearPending()
		}
		got := st.drain()
		vCheckStream(got, want, lastID, &allIDs)
		w.check(w.c, "primary")
		if lag {
			backlog = append(backlog, got...)
			continue
		}
		for _, c := range got {
			vndAssert(replica.c.Replay(c) == nil, "replay failed")
		}
		w.check(replica.c, "replica")
		vndAssert(replica.c.Count() == w.c.Count(), "replica Count differs")
	}
	// a replica that lags behind: the whole backlog is replayed only now
	for _, c := range backlog {
		vndAssert(replica.c.Replay(c) == nil, "replay failed")
	}
	w.check(replica.c, "replica at the end")
	vndObserve("commits", uint64(len(allIDs)))
	w.observe(replica.c)
}
