//go:build verif

package column

func init() {
	vndRegister("VerifC10TornRead", VerifC10TornRead)
}

// VerifC10TornRead: writers update columns a and b of the same rows keeping a+b = C (C arbitrary);
// readers on other goroutines read a, yield, read b inside ONE callback (point read, two point
// reads in one transaction, point read after the cursor was in another block, Range, filtered
// Range). Switch points include the inside of the writer's critical section (between the row
// markers and the updates, and between two column buffers), so a reader that is not excluded by the
// block latch observes a torn row. No deadlock, no data race.
func VerifC10TornRead() {
	w := vNewWorld(vndParam("cap"), vInt64, vndParam("fam"), Options{})
	r0, r1 := w.off[0], w.off[1]
	if vndParam("computed") == 1 {
		// column a feeds a trigger and a bitmap index: the commit applies them in a second pass over
		// a's buffer, before it turns to column b
		w.c.CreateTrigger("trg", "a", func(Reader) {})
		w.c.CreateIndex("idx", "a", func(r Reader) bool { return true })
	}
	C := vndU64("C")
	x0, x1 := vndU64("x"), vndU64("x")
	set := func(off uint32, a uint64) {
		w.c.Query(func(txn *Txn) error {
			return txn.QueryAt(off, func(r Row) error {
				r.SetInt64("a", int64(a))
				r.SetInt64("b", int64(C-a))
				return nil
			})
		})
	}
	set(r0, x0)
	set(r1, x1)
	y0, y1 := vndU64("y"), vndU64("y")
	wr := vndGo(func() {
		// one transaction changing both rows (two blocks with fam 2)
		w.c.Query(func(txn *Txn) error {
			txn.QueryAt(r0, func(r Row) error {
				r.SetInt64("a", int64(y0))
				r.SetInt64("b", int64(C-y0))
				return nil
			})
			txn.QueryAt(r1, func(r Row) error {
				r.SetInt64("a", int64(y1))
				r.SetInt64("b", int64(C-y1))
				return nil
			})
			return nil
		})
	})
	look := func(r Row, old, new uint64) {
		a, oka := r.Int64("a")
		vndYield()
		b, okb := r.Int64("b")
		vndAssert(oka && okb, "reader: a value disappeared")
		vndAssert(uint64(a)+uint64(b) == C, "reader saw a half-applied commit: column a and column b of one row come from different transactions")
		vndAssert(uint64(a) == old || uint64(a) == new, "reader saw a value that no transaction committed")
	}
	mode := vndChoice("reader", 5)
	rd := vndGo(func() {
		switch mode {
		case 0:
			w.c.QueryAt(r1, func(r Row) error { look(r, x1, y1); return nil })
		case 1: // two point reads in one transaction, the second into the same block
			w.c.Query(func(txn *Txn) error {
				txn.QueryAt(r1, func(r Row) error { return nil })
				return txn.QueryAt(r1, func(r Row) error { look(r, x1, y1); return nil })
			})
		case 2: // the cursor was in another block before
			w.c.Query(func(txn *Txn) error {
				txn.QueryAt(r0, func(r Row) error { return nil })
				return txn.QueryAt(r1, func(r Row) error { look(r, x1, y1); return nil })
			})
		case 3:
			w.c.Query(func(txn *Txn) error {
				return txn.Range(func(idx uint32) {
					if idx == r0 {
						look(Row{txn}, x0, y0)
					} else if idx == r1 {
						look(Row{txn}, x1, y1)
					}
				})
			})
		case 4:
			w.c.Query(func(txn *Txn) error {
				return txn.With("a").Range(func(idx uint32) {
					if idx == r1 {
						look(Row{txn}, x1, y1)
					}
				})
			})
		}
	})
	vndJoin(wr)
	vndJoin(rd)
	w.c.QueryAt(r1, func(r Row) error {
		a, _ := r.Int64("a")
		vndAssert(uint64(a) == y1, "final value")
		return nil
	})
	vndObserve("mode", uint64(mode))
}
