//go:build verif

package column

import (
	"context"
	"time"
)

func init() {
	vndRegister("VerifC17Expire", VerifC17Expire)
}

// vCtx is a context that is cancelled after the vacuum loop has asked for its Done channel
// `ticks`+1 times: the loop therefore performs exactly `ticks` cleanup passes (the stub ticker
// holds that many ticks) and then stops.
type vCtx struct {
	open, closed chan struct{}
	calls, ticks int
}

func (c *vCtx) Deadline() (time.Time, bool) { return time.Time{}, false }
func (c *vCtx) Done() <-chan struct{} {
	c.calls++
	if c.calls > c.ticks {
		return c.closed
	}
	return c.open
}
func (c *vCtx) Err() error                    { return context.Canceled }
func (c *vCtx) Value(key interface{}) interface{} { return nil }

// VerifC17Expire: rows with no TTL, a cleared TTL (0), a deadline set through Row.SetTTL or
// TTL().Set with an ARBITRARY duration, and a deadline extended by an arbitrary amount; the real
// vacuum loop runs for up to `ticks` passes of a stub ticker against a symbolic, non-decreasing
// clock. A pass removes a row if and only if the row holds a non-zero deadline that lies before the
// pass's "now"; nothing else removes rows.
func VerifC17Expire() {
	w := vNewWorld(vndParam("cap"), vInt64, vndParam("fam"), Options{})
	// deadline model per tracked row: 0 = none
	var deadline [vMaxRows]int64
	var hasTTL [vMaxRows]bool
	for i := 0; i < w.n; i++ {
		switch vndChoice("ttl", 7) {
		case 0: // never had a TTL
		case 1: // TTL set and cleared again
			w.c.QueryAt(w.off[i], func(r Row) error {
				r.SetTTL(time.Duration(vndU64("d")&0x0fffffffffffffff + 1))
				return nil
			})
			w.c.QueryAt(w.off[i], func(r Row) error {
				r.SetTTL(0)
				return nil
			})
			hasTTL[i] = true
		case 2: // Row.SetTTL with an arbitrary positive duration
			d := time.Duration(vndU64("d")&0x0fffffffffffffff + 1)
			var until time.Time
			w.c.QueryAt(w.off[i], func(r Row) error {
				until = r.SetTTL(d)
				return nil
			})
			deadline[i], hasTTL[i] = until.UnixNano(), true
		case 3: // TTL().Set then Extend in a later transaction
			d := time.Duration(vndU64("d")&0x0fffffffffffffff + 1)
			e := time.Duration(vndU64("e") & 0x0fffffffffffffff)
			var t0 int64
			w.c.Query(func(txn *Txn) error {
				return txn.QueryAt(w.off[i], func(r Row) error {
					txn.TTL().Set(d)
					return nil
				})
			})
			w.c.QueryAt(w.off[i], func(r Row) error {
				at, ok := r.txn.TTL().ExpiresAt()
				vndAssert(ok, "ExpiresAt reports no deadline after Set")
				t0 = at.UnixNano()
				return nil
			})
			w.c.Query(func(txn *Txn) error {
				return txn.QueryAt(w.off[i], func(r Row) error {
					txn.TTL().Extend(e)
					return nil
				})
			})
			deadline[i], hasTTL[i] = t0+int64(e), true
		case 4: // two extensions and an unrelated update in one transaction
			d := time.Duration(vndU64("d")&0x0fffffffffffffff + 1)
			e1 := time.Duration(vndU64("e") & 0x0fffffffffffffff)
			e2 := time.Duration(vndU64("e") & 0x0fffffffffffffff)
			var until time.Time
			w.c.QueryAt(w.off[i], func(r Row) error {
				until = r.SetTTL(d)
				return nil
			})
			w.c.Query(func(txn *Txn) error {
				return txn.QueryAt(w.off[i], func(r Row) error {
					txn.TTL().Extend(e1)
					r.SetInt64("a", 7)
					txn.TTL().Extend(e2)
					return nil
				})
			})
			w.a[i] = vCell{has: true, num: 7}
			deadline[i], hasTTL[i] = until.UnixNano()+int64(e1)+int64(e2), true
		case 5: // set and cleared again inside ONE transaction, on a row without a committed deadline
			d := time.Duration(vndU64("d")&0x0fffffffffffffff + 1)
			w.c.Query(func(txn *Txn) error {
				return txn.QueryAt(w.off[i], func(r Row) error {
					txn.TTL().Set(d)
					txn.TTL().Set(0)
					return nil
				})
			})
			hasTTL[i] = true
		case 6: // the same through Row.SetTTL, then extended by nothing
			d := time.Duration(vndU64("d")&0x0fffffffffffffff + 1)
			w.c.QueryAt(w.off[i], func(r Row) error {
				r.SetTTL(d)
				r.SetTTL(0)
				return nil
			})
			hasTTL[i] = true
		}
	}
	// the deadline is readable and is what the model says
	for i := 0; i < w.n; i++ {
		w.c.QueryAt(w.off[i], func(r Row) error {
			at, ok := r.txn.TTL().ExpiresAt()
			vndAssert(ok == (deadline[i] != 0), "ExpiresAt: presence of a deadline")
			if ok {
				vndAssert(at.UnixNano() == deadline[i], "ExpiresAt differs from the deadline that was set / extended")
			}
			v, okv := r.Int64(expireColumn)
			vndAssert(okv == hasTTL[i] && (!okv || v == deadline[i]), "stored deadline")
			return nil
		})
	}

	// ---- the real cleanup loop, up to `ticks` passes ----
	before := time.Now().UnixNano()
	w.c.vacuum(&vCtx{open: make(chan struct{}), closed: vClosed(), ticks: vndParam("ticks")}, time.Second)
	after := time.Now().UnixNano()

	for i := 0; i < w.n; i++ {
		alive := false
		w.c.Query(func(txn *Txn) error {
			return txn.Range(func(idx uint32) {
				if idx == w.off[i] {
					alive = true
				}
			})
		})
		if deadline[i] == 0 || deadline[i] >= after {
			vndAssert(alive, "a row without a deadline, or whose deadline lies in the future, was removed by the cleanup")
		}
		if !alive {
			vndAssert(deadline[i] != 0 && deadline[i] < after, "a row was removed although its deadline had not passed")
		}
		if vndParam("ticks") > 0 && deadline[i] != 0 && deadline[i] < before {
			vndAssert(!alive, "a row whose deadline had passed before the cleanup pass is still there")
		}
	}
	vndObserve("n", uint64(w.n))
}

func vClosed() chan struct{} {
	c := make(chan struct{})
	close(c)
	return c
}
