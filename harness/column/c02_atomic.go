//go:build verif

package column

import "sync/atomic"

func init() {
	vndRegister("VerifC02Atomic", VerifC02Atomic)
}

// VerifC02Atomic: transactions ending in commit or error over a collection with an index and a
// recording logger. While the transaction is in flight (all operations buffered, no latch held)
// its own reads, a nested reader and Count see only committed state; a transaction that returns
// an error leaves no trace (rows, values, index, Count, next insert offset, stream).
func VerifC02Atomic() {
	kind := vPickKind(vndParam("kinds"))
	st := vNewStream(false)
	w := vNewWorld(vndParam("cap"), kind, vndParam("fam"), Options{Writer: st.logger()})
	rule, oracle := vPredicate(kind)
	vndAssert(w.c.CreateIndex("idx", "a", rule) == nil, "CreateIndex failed")
	st.drain()
	T, M := vndParam("T"), vndParam("M")
	menu, maxLen := vndParam("menu"), vndParam("maxLen")
	for t := 0; t < T; t++ {
		abort := vndChoice("abort", 2) == 1
		free0 := w.c.findFreeIndex(atomic.LoadUint64(&w.c.count) + 1)
		inserted, failed := false, false
		err := w.c.Query(func(txn *Txn) error {
			for i := 0; i < M; i++ {
				if menu&64 != 0 && vndChoice("failing", 2) == 1 {
					// an insert whose callback fails: the reservation is given back
					num, str := vInput(kind, maxLen)
					_, err := txn.Insert(func(r Row) error {
						vSet(r, kind, "a", num, str)
						return vErrAbort
					})
					vndAssert(err != nil, "failing insert did not report the error")
					failed = true
					continue
				}
				n0 := w.pn
				w.oneOp(txn, menu&63, maxLen)
				if w.pn > n0 && w.pOp[n0] >= 4 {
					inserted = true
				}
			}
			// KF-inflight-insert: a reserved offset is visible to everybody at once
			vndKnown("KF-inflight-insert", inserted)
			// ---- isolation: nothing buffered is visible yet ----
			vndAssert(w.c.Count() == w.count, "in flight: Count shows uncommitted changes")
			for i := 0; i < w.n; i++ {
				if !w.live[i] {
					continue
				}
				txn.QueryAt(w.off[i], func(r Row) error {
					vSameCell(vGet(r, kind, "a"), w.a[i], kind, "in flight: the transaction's own read of column a")
					vSameCell(vGet(r, vInt64, "b"), w.b[i], vInt64, "in flight: the transaction's own read of column b")
					return nil
				})
			}
			// a nested reader on the same goroutine
			live := vLiveSet(w.c, vMaxRows+1)
			nlive := 0
			for i := 0; i < w.n; i++ {
				if w.live[i] {
					nlive++
				}
			}
			vndAssert(len(live) == nlive, "in flight: another reader sees a different set of rows")
			for _, o := range live {
				s := w.slotOf(o)
				vndAssert(s >= 0 && w.live[s], "in flight: another reader sees a row that is not committed")
			}
			if abort {
				return vErrAbort
			}
			return nil
		})
		vndAssert((err != nil) == abort, "Query result")
		// KF-failed-insert-committed: the failed insert keeps its marker and buffered values; they
		// are applied if the transaction commits
		vndKnown("KF-failed-insert-committed", failed && !abort)
		if abort {
			// KF-rollback-insert: rows inserted by a transaction that rolls back stay live
			vndKnown("KF-rollback-insert", inserted)
			w.clearPending()
			vndAssert(len(st.drain()) == 0, "a rolled-back transaction emitted commits")
			free1 := w.c.findFreeIndex(atomic.LoadUint64(&w.c.count) + 1)
			vndAssert(free1 == free0, "after rollback the next insert would receive a different offset")
		} else {
			w.commitModel()
			st.drain()
		}
		w.check(w.c, "after the transaction")
		w.checkIndex(w.c, "idx", oracle, "after the transaction")
	}
	w.observe(w.c)
}
