//go:build verif

package column

import "math"

func init() {
	vndRegister("VerifC04Filters", VerifC04Filters)
}

// VerifC04Filters: a collection whose tracked rows (word and block boundaries, several blocks)
// hold ARBITRARY values in the int64 column a or no value at all (decided by the solver's
// exploration), a witness column b, a threshold index over a; then a chain of L filter calls.
// The selection must equal the set algebra over the model: Count, the exact ascending Range
// sequence with a readable cursor, and Sum/Min/Max/Avg over the selected rows that hold a value.
func VerifC04Filters() {
	kind := vPickKind(vndParam("kinds")) // numeric kind of column a
	w := vNewWorld(vndParam("cap"), kind, vndParam("fam"), Options{})
	thr := int(vndU64("thr"))
	vndAssert(w.c.CreateIndex("idx", "a", func(r Reader) bool { return r.Int() < thr }) == nil, "CreateIndex")
	inIdx := func(c vCell) bool {
		switch kind {
		case vInt16:
			return c.has && int(int16(c.num)) < thr
		case vInt32:
			return c.has && int(int32(c.num)) < thr
		case vUint16, vUint32:
			return c.has && int(c.num) < thr
		}
		return c.has && int(c.num) < thr
	}
	// state: each pre-existing row gets a value in a, or not; one row may be deleted and its
	// offset reused by a row that holds nothing
	w.c.Query(func(txn *Txn) error {
		for i := 0; i < w.n; i++ {
			if vndChoice("hasA", 2) == 1 {
				num, _ := vInput(kind, 0)
				txn.QueryAt(w.off[i], func(r Row) error {
					vSet(r, kind, "a", num, "")
					return nil
				})
				w.a[i] = vModelSet(kind, num, "")
			}
		}
		return nil
	})
	if vndParam("reuse") == 1 {
		w.c.DeleteAt(w.off[1])
		off, _ := w.c.Insert(func(r Row) error { return nil })
		vndAssert(off == w.off[1], "harness expects the freed offset to be reused")
		w.a[1], w.b[1] = vCell{}, vCell{}
	}

	var sel [vMaxRows]bool
	L := vndParam("L")
	w.c.Query(func(txn *Txn) error {
		for i := 0; i < w.n; i++ {
			sel[i] = w.live[i]
		}
		setup := false
		cleared, unionAfterClear := false, false
		for l := 0; l < L; l++ {
			nf := 12
			if vndParam("fpUF") == 0 && vndParam("withFloat") == 1 {
				nf = 13 // WithFloat only where floating point keeps its real semantics (thorough tier)
			}
			f := vndChoice("filter", nf)
			if f == 8 {
				cleared = true
			}
			if cleared && (f == 2 || (f == 10 && !setup)) {
				// KF-union-after-missing: With(<missing name>) truncates the selection to length 0; a
				// later Union ORs into a zero-length window and the result is lost
				unionAfterClear = true
			}
			vndKnown("KF-union-after-missing", unionAfterClear)
			switch f {
			case 0:
				txn.With("idx")
				for i := 0; i < w.n; i++ {
					sel[i] = sel[i] && inIdx(w.a[i])
				}
			case 1:
				txn.Without("idx")
				for i := 0; i < w.n; i++ {
					sel[i] = sel[i] && !inIdx(w.a[i])
				}
			case 2:
				txn.Union("idx")
				for i := 0; i < w.n; i++ {
					if setup {
						sel[i] = sel[i] || (w.live[i] && inIdx(w.a[i]))
					} else {
						sel[i] = sel[i] && inIdx(w.a[i])
					}
				}
			case 3:
				txn.With("b")
				for i := 0; i < w.n; i++ {
					sel[i] = sel[i] && w.b[i].has
				}
			case 4:
				txn.Without("a")
				for i := 0; i < w.n; i++ {
					sel[i] = sel[i] && !w.a[i].has
				}
			case 5:
				k := int64(vndU64("k"))
				txn.WithInt("a", func(v int64) bool { return v > k })
				for i := 0; i < w.n; i++ {
					sel[i] = sel[i] && w.a[i].has && vAsInt64(kind, w.a[i].num) > k
				}
			case 6:
				k := vndU64("k")
				txn.WithUint("a", func(v uint64) bool { return v <= k })
				for i := 0; i < w.n; i++ {
					sel[i] = sel[i] && w.a[i].has && uint64(vAsInt64(kind, w.a[i].num)) <= k
				}
			case 7:
				txn.WithValue("b", func(v interface{}) bool { return v.(int64) >= 0 })
				for i := 0; i < w.n; i++ {
					sel[i] = sel[i] && w.b[i].has && int64(w.b[i].num) >= 0
				}
			case 8:
				txn.With("missing")
				for i := 0; i < w.n; i++ {
					sel[i] = false
				}
			case 9:
				txn.Without("missing")
			case 11:
				if setup {
					// a union of names that do not exist is the empty set: nothing stays selected
					txn.WithUnion("missing", "missing2")
					for i := 0; i < w.n; i++ {
						sel[i] = false
					}
				} else {
					txn.With("b")
					for i := 0; i < w.n; i++ {
						sel[i] = sel[i] && w.b[i].has
					}
				}
			case 12:
				kf := math.Float64frombits(vndU64("kf"))
				txn.WithFloat("a", func(v float64) bool { return v < kf })
				for i := 0; i < w.n; i++ {
					sel[i] = sel[i] && w.a[i].has && float64(vAsInt64(kind, w.a[i].num)) < kf
				}
			case 10:
				if setup {
					txn.WithUnion("idx", "b")
					for i := 0; i < w.n; i++ {
						sel[i] = sel[i] && (inIdx(w.a[i]) || w.b[i].has)
					}
				} else {
					txn.WithUnion("idx", "b") // first call of the chain: behaves like Union
					for i := 0; i < w.n; i++ {
						sel[i] = sel[i] && inIdx(w.a[i])
					}
					for i := 0; i < w.n; i++ {
						sel[i] = sel[i] || (w.live[i] && w.b[i].has)
					}
				}
			}
			setup = true
		}

		// ---- Count, Range, cursor ----
		n := 0
		for i := 0; i < w.n; i++ {
			if sel[i] {
				n++
			}
		}
		vndAssert(txn.Count() == n, "Count differs from the size of the selected set")
		var seen [vMaxRows]bool
		visited := 0
		last := -1
		txn.Range(func(idx uint32) {
			s := w.slotOf(idx)
			vndAssert(s >= 0 && sel[s], "Range visits a row that is not selected")
			vndAssert(!seen[s], "Range visits a row twice")
			seen[s] = true
			vndAssert(int(idx) > last, "Range is not in ascending offset order")
			last = int(idx)
			visited++
			vSameCell(vLoadTxn(txn, kind, "a"), w.a[s], kind, "reader positioned on the visited row")
		})
		vndAssert(visited == n, "Range visits fewer rows than are selected")

		// ---- aggregates over the selected rows that hold a value ----
		if vndParam("agg") == 1 {
			vCheckAggregates(txn, kind, w, &sel)
		}
		return nil
	})
	vndObserve("n", uint64(w.n))
}

func vAsInt64(k vKind, bits uint64) int64 {
	switch k {
	case vInt16:
		return int64(int16(bits))
	case vInt32:
		return int64(int32(bits))
	}
	return int64(bits)
}

// vLoadTxn reads column col at the transaction's cursor through the typed reader.
func vLoadTxn(txn *Txn, k vKind, col string) (c vCell) {
	switch k {
	case vInt16:
		v, ok := txn.Int16(col).Get()
		c.num, c.has = uint64(uint16(v)), ok
	case vInt32:
		v, ok := txn.Int32(col).Get()
		c.num, c.has = uint64(uint32(v)), ok
	case vUint16:
		v, ok := txn.Uint16(col).Get()
		c.num, c.has = uint64(v), ok
	case vUint64:
		v, ok := txn.Uint64(col).Get()
		c.num, c.has = v, ok
	default:
		v, ok := txn.Int64(col).Get()
		c.num, c.has = uint64(v), ok
	}
	return
}

func vCheckAggregates(txn *Txn, k vKind, w *vWorld, sel *[vMaxRows]bool) {
	// model: wrap-around sum, min, max, count over selected rows that hold a value
	var sum, min, max int64
	cnt := 0
	for i := 0; i < w.n; i++ {
		if sel[i] && w.a[i].has {
			v := vAsInt64(k, w.a[i].num)
			sum += v
			if cnt == 0 || v < min {
				min = v
			}
			if cnt == 0 || v > max {
				max = v
			}
			cnt++
		}
	}
	switch k {
	case vInt16:
		r := txn.Int16("a")
		vndAssert(r.Sum() == int16(sum), "Sum differs from the sum over the selected values")
		mn, ok := r.Min()
		vndAssert(ok == (cnt > 0) && (!ok || int64(mn) == min), "Min differs")
		mx, ok := r.Max()
		vndAssert(ok == (cnt > 0) && (!ok || int64(mx) == max), "Max differs")
	default:
		r := txn.Int64("a")
		vndAssert(r.Sum() == sum, "Sum differs from the sum over the selected values")
		mn, ok := r.Min()
		vndAssert(ok == (cnt > 0) && (!ok || mn == min), "Min differs")
		mx, ok := r.Max()
		vndAssert(ok == (cnt > 0) && (!ok || mx == max), "Max differs")
		if cnt > 0 {
			avg := r.Avg()
			vndAssert(avg == float64(sum)/float64(cnt), "Avg differs from sum/count over the selected values")
		}
	}
}
