//go:build verif

package column

import (
	"github.com/kelindar/bitmap"
)

func init() {
	vndRegister("VerifC11NextStep", VerifC11NextStep)
}

// VerifC11NextStep: one step of the offset allocator from an ARBITRARY fill list. The fill list is
// a prefix of full words followed by W arbitrary words (so every fragmentation pattern over word
// boundaries is covered, including "tail word full", "tail word has a hole", "holes only before
// the tail"); count is the population, as the collection maintains it. next() must return an
// offset that was free, mark exactly that offset, and bump Count by one; free() must undo it.
func VerifC11NextStep() {
	full := vndParam("full") // number of leading all-ones words
	W := vndParam("W")       // arbitrary words after them
	c := &Collection{fill: make(bitmap.Bitmap, full+W, full+W+vndParam("spare"))}
	for i := 0; i < full; i++ {
		c.fill[i] = ^uint64(0)
	}
	var old [8]uint64
	for i := 0; i < W; i++ {
		old[i] = vndU64("word")
		c.fill[full+i] = old[i]
	}
	n0 := c.fill.Count()
	c.count = uint64(n0)
	words := full + W

	idx := c.next()
	vndCover("appended", int(idx) >= words*64)
	vndCover("reused-hole", int(idx) < words*64)
	vndCover("hole-before-tail-word", int(idx>>6) < (n0>>6) && int(idx) < words*64)

	// the offset was free
	blk := int(idx >> 6)
	if blk < words {
		vndAssert(blk >= full, "next returned an offset inside a full word")
		vndAssert(old[blk-full]&(1<<(idx&63)) == 0, "next returned the offset of a live row")
	} else {
		vndAssert(blk == words, "next skipped past the end of the fill list")
		vndAssert(idx&63 == 0, "append position is not the first bit of the new word")
	}
	// exactly that bit was set
	vndAssert(c.fill.Contains(idx), "the returned offset is not marked")
	vndAssert(c.Count() == n0+1, "Count did not grow by one")
	// (that exactly one bit was added is asserted word by word below; Count is maintained
	// arithmetically by next and recomputed from the fill list by free)
	for i := 0; i < W; i++ {
		want := old[i]
		if blk == full+i {
			want |= 1 << (idx & 63)
		}
		vndAssert(c.fill[full+i] == want, "another bit of the fill list changed")
	}
	for i := 0; i < full; i++ {
		vndAssert(c.fill[i] == ^uint64(0), "a full word changed")
	}

	// a second reservation never collides with the first
	idx2 := c.next()
	vndAssert(idx2 != idx, "two reservations received the same offset")
	vndAssert(c.Count() == n0+2, "Count after two reservations")

	// free gives both back
	c.free(idx2)
	c.free(idx)
	vndAssert(c.Count() == c.fill.Count(), "Count after free is not the population of the fill list")
	for i := 0; i < W; i++ {
		vndAssert(c.fill[full+i] == old[i], "free did not restore the fill word")
	}
	vndAssert(len(c.fill) >= words, "free shrank the fill list")
	for i := words; i < len(c.fill); i++ {
		vndAssert(c.fill[i] == 0, "free left a bit behind in an appended word")
	}
	vndObserve("idx", uint64(idx))
	vndObserve("idx2", uint64(idx2))
}
