//go:build verif

package column

import (
	"github.com/kelindar/bitmap"
)

func init() {
	vndRegister("VerifC11NextStep", VerifC11NextStep)
}

// VerifC11NextStep: one step of the offset allocator from an ARBITRARY fill list. The fill list is
// a prefix of full words followed by W arbitrary words (so every fragmentation pattern over word
// boundaries is covered, including "tail word full", "tail word has a hole", "holes only before
// the tail"); count is the population, as the collection maintains it. next() must return an
// offset that was free, mark exactly that offset, and bump Count by one; free() must undo it.
func VerifC11NextStep() {
	full := vndParam("full") // number of leading all-ones words
	W := vndParam("W")       // arbitrary words after them
	c := &Collection{fill: make(bitmap.Bitmap, full+W, full+W+vndParam("spare"))}
	for i := 0; i < full; i++ {
		c.fill[i] = ^uint64(0)
	}
	var old [8]uint64
	for i := 0; i < W; i++ {
		old[i] = vndU64("word")
		c.fill[full+i] = old[i]
	}
	n0 := c.fill.Count()
	c.count = uint64(n0)
	words := full + W

	idx := c.next()
	vndCover("appended", int(idx) >= words*64)
	vndCover("reused-hole", int(idx) < words*64)
	vndCover("hole-before-tail-word", int(idx>>6) < (n0>>6) && int(idx) < words*64)

	// the offset was free
	blk := int(idx >> 6)
	if blk < words {
		vndAssert(blk >= full, "next returned an offset inside a full word")
		vndAssert(old[blk-full]&(1<<(idx&63)) == 0, "next returned the offset of a live row")
	} else {
		vndAssert(blk == words, "next skipped past the end of the fill list")
		vndAssert(idx&63 == 0, "append position is not the first bit of the new word")
	}
	// exactly that bit was set
	vndAssert(c.fill.Contains(idx), "the returned offset is not marked")
	vndAssert(c.Count() == n0+1, "Count did not grow by one")
	// (that exactly one bit was added is asserted word by word below; Count is maintained
	// arithmetically by next and recomputed from the fill list by free)
	for i := 0; i < W; i++ {
		want := old[i]
		if blk == full+i {
			want |= 1 << (idx & 63)
		}
		vndAssert(c.fill[full+i] == want, "another bit of the fill list changed")
	}
	for i := 0; i < full; i++ {
		vndAssert(c.fill[i] == ^uint64(0), "a full word changed")
	}

	// a second reservation never collides with the first
	idx2 := c.next()
	vndAssert(idx2 != idx, "two reservations received the same offset")
	vndAssert(c.Count() == n0+2, "Count after two reservations")

	// free gives both back
	c.free(idx2)
	c.free(idx)
	vndAssert(c.Count() == c.fill.Count(), "Count after free is not the population of the fill list")
	for i := 0; i < W; i++ {
		vndAssert(c.fill[full+i] == old[i], "free did not restore the fill word")
	}
	vndAssert(len(c.fill) >= words, "free shrank the fill list")
	for i := words; i < len(c.fill); i++ {
		vndAssert(c.fill[i] == 0, "free left a bit behind in an appended word")
	}
	vndObserve("idx", uint64(idx))
	vndObserve("idx2", uint64(idx2))
}

func init() { vndRegister("VerifC11FailedInsertRollback", VerifC11FailedInsertRollback) }

// VerifC11FailedInsertRollback: a transaction whose insert fails (the reservation is given back at
// once) keeps running; meanwhile another transaction (here: nested on the same goroutine, or after
// it) inserts and commits, possibly receiving the very offset that was given back; then the first
// transaction rolls back or commits nothing else. The second transaction's row must stay live with
// its value, Count must add up and the next insert must not collide with it.
func VerifC11FailedInsertRollback() {
	w := vNewWorld(vndParam("cap"), vInt64, vndParam("fam"), Options{})
	v := vndU64("v")
	var off2 uint32
	abort := vndChoice("abort", 2) == 1
	nested := vndChoice("nested", 2) == 1
	err := w.c.Query(func(txn *Txn) error {
		_, ierr := txn.Insert(func(r Row) error {
			r.SetInt64("a", 99)
			return vErrAbort
		})
		vndAssert(ierr != nil, "the failing insert did not report its error")
		if nested {
			var e2 error
			off2, e2 = w.c.Insert(func(r Row) error {
				r.SetInt64("a", int64(v))
				return nil
			})
			vndAssert(e2 == nil, "nested insert failed")
		}
		if abort {
			return vErrAbort
		}
		return nil
	})
	vndAssert((err != nil) == abort, "Query result")
	// KF-failed-insert-committed: when the outer transaction commits, the failed insert is resurrected
	vndKnown("KF-failed-insert-committed", !abort)
	if !nested {
		var e2 error
		off2, e2 = w.c.Insert(func(r Row) error {
			r.SetInt64("a", int64(v))
			return nil
		})
		vndAssert(e2 == nil, "insert failed")
	}
	vndAssert(w.slotOf(off2) < 0, "the insert received the offset of a pre-existing row")
	vndAssert(w.c.Count() == w.count+1, "Count differs from the number of live rows")
	w.c.QueryAt(off2, func(r Row) error {
		got, ok := r.Int64("a")
		vndAssert(ok && uint64(got) == v, "the committed row lost its value")
		return nil
	})
	live := vLiveSet(w.c, vMaxRows+2)
	found := false
	for _, o := range live {
		if o == off2 {
			found = true
		}
	}
	vndAssert(found && len(live) == w.count+1, "the committed row is not live (or another row appeared)")
	off3, e3 := w.c.Insert(func(r Row) error { return nil })
	vndAssert(e3 == nil && off3 != off2 && w.slotOf(off3) < 0, "a later insert collided with a live row")
	vndObserve("off2", uint64(off2))
}
