//go:build verif

package column

import "github.com/kelindar/column/commit"

func init() {
	vndRegister("VerifC18Scenarios", VerifC18Scenarios)
}

// VerifC18Scenarios: the workloads the property names, each on 2-3 goroutines with switches at the
// protocol yield points: every explored schedule must terminate (no deadlock state) and every
// pair of conflicting memory accesses must be ordered by happens-before (locks, atomics, goroutine
// start/join, pools).
func VerifC18Scenarios() {
	sc := vndParam("scenario")
	w := vNewWorld(vndParam("cap"), vInt64, vndParam("fam"), Options{})
	r0 := w.off[0]
	w.c.QueryAt(r0, func(r Row) error { r.SetInt64("a", 1); return nil })
	var t [3]int
	n := 0
	spawn := func(f func()) { t[n] = vndGo(f); n++ }
	switch sc {
	case 0: // point reads and iteration while a writer's commit adds a new block
		spawn(func() {
			w.c.Query(func(txn *Txn) error {
				// a row in a block that does not exist yet (offset in block 2 via replayed insert)
				txn.dirty.Set(2)
				buf := txn.owner.txns.acquirePage(rowColumn)
				buf.PutOperation(commit.Insert, 2<<14|7)
				txn.updates = append(txn.updates, buf)
				return nil
			})
		})
		spawn(func() {
			w.c.QueryAt(r0, func(r Row) error {
				_, ok := r.Int64("a")
				vndAssert(ok, "reader lost the value")
				return nil
			})
			w.c.Query(func(txn *Txn) error { return txn.With("a").Range(func(idx uint32) {}) })
		})
	case 1: // inserts and deletes on two goroutines (C11: offsets never collide, Count adds up)
		var offs [2]uint32
		for i := 0; i < 2; i++ {
			i := i
			spawn(func() {
				w.c.Query(func(txn *Txn) error {
					off, err := txn.Insert(func(r Row) error {
						vndYield() // another insert may run while this one is in flight
						r.SetInt64("a", int64(5+i))
						return nil
					})
					vndAssert(err == nil, "insert failed")
					offs[i] = off
					return nil
				})
			})
		}
		vndJoin(t[0])
		vndJoin(t[1])
		n = 0
		vndAssert(offs[0] != offs[1], "two concurrent inserts received the same offset")
		for i := 0; i < 2; i++ {
			i := i
			w.c.QueryAt(offs[i], func(r Row) error {
				v, ok := r.Int64("a")
				vndAssert(ok && v == int64(5+i), "a concurrent insert overwrote another")
				return nil
			})
		}
		vndAssert(w.c.Count() == w.count+2, "Count after two concurrent inserts")
		spawn(func() { w.c.DeleteAt(offs[0]) })
		spawn(func() { w.c.DeleteAt(offs[1]) })
		vndJoin(t[0])
		vndJoin(t[1])
		n = 0
		vndAssert(w.c.Count() == w.count, "Count after the rows were deleted again")
	case 2: // CreateIndex beside a writer
		spawn(func() {
			w.c.CreateIndex("idx", "a", func(r Reader) bool { return r.Int() > 0 })
		})
		spawn(func() {
			w.c.QueryAt(r0, func(r Row) error { r.SetInt64("a", 7); return nil })
		})
	case 3: // a reader that inserts from inside its own iteration callback, plus a writer
		// KF-recursive-rlock: Txn.insert read-latches the block through QueryAt; inside a Range
		// callback of the same block that is a recursive RLock, which blocks for ever behind a
		// writer that queued in between
		vndKnown("KF-recursive-rlock", true)
		spawn(func() {
			w.c.Query(func(txn *Txn) error {
				return txn.Range(func(idx uint32) {
					vndYield()
					txn.Insert(func(r Row) error { r.SetInt64("a", 9); return nil })
				})
			})
		})
		spawn(func() {
			w.c.QueryAt(r0, func(r Row) error { r.SetInt64("a", 7); return nil })
		})
	case 4: // snapshot beside a writer that inserts and deletes, then restore into another collection
		dst := &commit.VBuf{}
		spawn(func() { vndAssert(w.c.Snapshot(dst) == nil, "Snapshot failed") })
		spawn(func() {
			w.c.Query(func(txn *Txn) error {
				txn.DeleteAt(w.off[1])
				txn.Insert(func(r Row) error { r.SetInt64("a", 3); return nil })
				return nil
			})
		})
		vndJoin(t[0])
		vndJoin(t[1])
		n = 0
		fresh := vSchema(w, vndParam("cap"), nil)
		spawn(func() { vndAssert(fresh.Restore(dst) == nil, "Restore failed") })
		spawn(func() { w.c.QueryAt(r0, func(r Row) error { r.SetInt64("a", 11); return nil }) })
	case 5: // two goroutines commit to an existing block while a third grows the collection
		spawn(func() {
			w.c.Query(func(txn *Txn) error {
				txn.dirty.Set(1)
				buf := txn.owner.txns.acquirePage(rowColumn)
				buf.PutOperation(commit.Insert, 1<<14|3)
				txn.updates = append(txn.updates, buf)
				return nil
			})
		})
		spawn(func() { w.c.QueryAt(r0, func(r Row) error { r.MergeInt64("a", 2); return nil }) })
	case 6: // a row is re-keyed while other goroutines look keys up and insert by key
		kc := NewCollection(Options{Capacity: vndParam("cap")})
		kc.CreateColumn("k", ForKey())
		kc.CreateColumn("b", ForInt64())
		kc.InsertKey("a", func(r Row) error { r.SetInt64("b", 1); return nil })
		kc.InsertKey("bb", func(r Row) error { r.SetInt64("b", 2); return nil })
		spawn(func() { kc.QueryKey("a", func(r Row) error { r.SetKey("c"); return nil }) })
		spawn(func() { kc.QueryKey("bb", func(r Row) error { return nil }) })
		spawn(func() { kc.UpsertKey("d", func(r Row) error { r.SetInt64("b", 3); return nil }) })
	}
	for i := 0; i < n; i++ {
		vndJoin(t[i])
	}
	vndAssert(w.c.Count() > 0, "the collection lost its rows")
	vndObserve("count", uint64(w.c.Count()))
}
