//go:build verif

package column

import "math"

func init() {
	vndRegister("VerifC03Index", VerifC03Index)
	vndRegister("VerifC19Trigger", VerifC19Trigger)
}

// vPredicate builds an index rule of the family that fits the kind, and the same predicate over
// the model's typed value.
func vPredicate(k vKind) (rule func(Reader) bool, oracle func(vCell) bool) {
	switch {
	case k == vBool:
		return func(r Reader) bool { return r.Bool() }, func(c vCell) bool { return c.num == 1 }
	case vIsText(k):
		target := vKeyName(vndChoice("target", 2))
		return func(r Reader) bool { return r.String() == target }, func(c vCell) bool { return c.str == target }
	case k == vFloat32:
		thr := math.Float64frombits(vndU64("thr"))
		return func(r Reader) bool { return r.Float() < thr },
			func(c vCell) bool { return float64(math.Float32frombits(uint32(c.num))) < thr }
	case k == vFloat64:
		thr := math.Float64frombits(vndU64("thr"))
		return func(r Reader) bool { return r.Float() < thr },
			func(c vCell) bool { return math.Float64frombits(c.num) < thr }
	case k == vUint || k == vUint16 || k == vUint32 || k == vUint64:
		thr := uint(vndU64("thr"))
		return func(r Reader) bool { return r.Uint() < thr }, func(c vCell) bool { return uint(c.num) < thr }
	default: // signed integers: the predicate is about the VALUE of the column
		thr := int(vndU64("thr"))
		return func(r Reader) bool { return r.Int() < thr }, func(c vCell) bool {
			switch k {
			case vInt16:
				return int(int16(c.num)) < thr
			case vInt32:
				return int(int32(c.num)) < thr
			}
			return int(c.num) < thr
		}
	}
}

// checkIndex asserts that the index selects exactly the live rows whose current value satisfies
// the predicate: through With(index).Range and through Row.Bool(index).
func (w *vWorld) checkIndex(c *Collection, index string, oracle func(vCell) bool, what string) {
	var sel [vMaxRows]bool
	extra := false
	c.Query(func(txn *Txn) error {
		return txn.With(index).Range(func(idx uint32) {
			s := w.slotOf(idx)
			if s < 0 {
				extra = true
				return
			}
			sel[s] = true
		})
	})
	vndAssert(!extra, what+": the index selects a row that does not exist")
	// the index itself holds no bit outside the live rows: With() masks such a bit with the fill
	// list, Union() does not, and it comes back as a match when the offset is reused
	stale := false
	c.Query(func(txn *Txn) error {
		return txn.Without(index).Union(index).Range(func(idx uint32) {
			if s := w.slotOf(idx); s < 0 || !w.live[s] {
				stale = true
			}
		})
	})
	vndAssert(!stale, what+": the index keeps a bit for a row that is not live")
	for i := 0; i < w.n; i++ {
		want := w.live[i] && w.a[i].has && oracle(w.a[i])
		vndAssert(sel[i] == want, what+": With(index) differs from the predicate over the current value")
		if w.live[i] {
			c.QueryAt(w.off[i], func(r Row) error {
				vndAssert(r.Bool(index) == want, what+": Row.Bool(index) differs from the predicate over the current value")
				return nil
			})
		}
	}
}

// VerifC03Index: histories with a bitmap index on the column under test, created before the data,
// after it (back-fill) or in the middle of the history; a second index with another threshold in
// the thorough tier.
func VerifC03Index() {
	kind := vPickKind(vndParam("kinds"))
	st := vNewStream(false)
	w := vNewWorld(vndParam("cap"), kind, vndParam("fam"), Options{Writer: st.logger()})
	replica := vNewWorld(vndParam("cap"), kind, 0, Options{})
	rule, oracle := vPredicate(kind)
	when := vndChoice("when", 3) // 0 before any data in column a, 1 after the first transaction, 2 never dropped/re-created
	T, M := vndParam("T"), vndParam("M")
	menu, maxLen := vndParam("menu"), vndParam("maxLen")
	created := false
	// several indexes per column: a second index with its own (independently arbitrary) predicate,
	// created before any data
	var oracle2 func(vCell) bool
	if vndParam("second") == 1 {
		var rule2 func(Reader) bool
		rule2, oracle2 = vPredicate(kind)
		vndAssert(w.c.CreateIndex("idx2", "a", rule2) == nil, "CreateIndex failed")
		vndAssert(replica.c.CreateIndex("idx2", "a", rule2) == nil, "CreateIndex failed")
	}
	if when != 1 {
		vndAssert(w.c.CreateIndex("idx", "a", rule) == nil, "CreateIndex failed")
		vndAssert(replica.c.CreateIndex("idx", "a", rule) == nil, "CreateIndex failed")
		created = true
	}
	for _, c := range st.drain() {
		replica.c.Replay(c)
	}
	for t := 0; t < T; t++ {
		err := w.c.Query(func(txn *Txn) error {
			for i := 0; i < M; i++ {
				w.oneOp(txn, menu, maxLen)
			}
			return nil
		})
		vndAssert(err == nil, "transaction failed")
		vndKnown("KF-merge-reorder", w.mergeReorder())
		w.commitModel()
		for _, c := range st.drain() {
			replica.c.Replay(c)
		}
		if !created {
			// index created over existing data: back-fill
			vndAssert(w.c.CreateIndex("idx", "a", rule) == nil, "CreateIndex failed")
			vndAssert(replica.c.CreateIndex("idx", "a", rule) == nil, "CreateIndex failed")
			created = true
		} else if when == 2 && t == 0 {
			// dropped and re-created in the middle of the history
			vndAssert(w.c.DropIndex("idx") == nil, "DropIndex failed")
			vndAssert(w.c.CreateIndex("idx", "a", rule) == nil, "CreateIndex failed")
		}
		w.checkIndex(w.c, "idx", oracle, "primary")
		w.checkIndex(replica.c, "idx", oracle, "replica")
		if oracle2 != nil {
			w.checkIndex(w.c, "idx2", oracle2, "primary, second index")
			w.checkIndex(replica.c, "idx2", oracle2, "replica, second index")
		}
	}
	w.check(w.c, "values")
	w.observe(w.c)
}

// ---------------------------------------------------------------------------------------

type vEvent struct {
	off uint32
	del bool
	c   vCell
}

// VerifC19Trigger: a trigger on the column under test is called exactly once per committed store
// (with the value finally stored, merges resolved) and once per committed row deletion, stores to
// one row in issue order, and never for a transaction that rolled back.
func VerifC19Trigger() {
	kind := vPickKind(vndParam("kinds"))
	w := vNewWorld(vndParam("cap"), kind, vndParam("fam"), Options{})
	w.allowDelWrite = true
	var events []vEvent
	clbk := func(r Reader) {
		e := vEvent{off: r.Index(), del: r.IsDelete()}
		if !e.del {
			switch {
			case kind == vBool:
				e.c = vModelSet(kind, 1, "")
			case vIsText(kind):
				e.c = vCell{has: true, str: string([]byte(r.String()))}
			case kind == vFloat32:
				e.c = vCell{has: true, num: uint64(math.Float32bits(float32(r.Float())))}
			case kind == vFloat64:
				e.c = vCell{has: true, num: math.Float64bits(r.Float())}
			default:
				e.c = vCell{has: true, num: uint64(r.Uint()) & vMask(kind)}
			}
		}
		events = append(events, e)
	}
	vndAssert(w.c.CreateTrigger("trg", "a", clbk) == nil, "CreateTrigger failed")
	T, M := vndParam("T"), vndParam("M")
	menu, maxLen := vndParam("menu"), vndParam("maxLen")
	// the trigger may be dropped after the first transaction, and created again after the second
	life := 0 // 0 always there, 1 dropped after txn 0, 2 dropped after txn 0 and re-created after txn 1
	if vndParam("life") == 1 {
		life = 1 + vndChoice("life", 2)
	}
	present := true
	for t := 0; t < T; t++ {
		if life > 0 && t == 1 {
			vndAssert(w.c.DropTrigger("trg") == nil, "DropTrigger failed")
			present = false
		}
		if life == 2 && t == 2 {
			vndAssert(w.c.CreateTrigger("trg", "a", clbk) == nil, "CreateTrigger failed")
			present = true
		}
		abort := vndChoice("abort", 2) == 1
		events = events[:0]
		m := menu
		if abort {
			m &^= 16 // no inserts in a transaction that rolls back (see C02)
		}
		err := w.c.Query(func(txn *Txn) error {
			for i := 0; i < M; i++ {
				w.oneOp(txn, m, maxLen)
			}
			if abort {
				return vErrAbort
			}
			return nil
		})
		vndAssert((err != nil) == abort, "Query result")
		if abort {
			w.clearPending()
			vndAssert(len(events) == 0, "trigger called for a transaction that rolled back")
			continue
		}
		if !present {
			vndAssert(len(events) == 0, "a dropped trigger was called")
			vndKnown("KF-merge-reorder", w.mergeReorder())
			w.commitModel()
			continue
		}
		// expected events, per row in issue order
		var used [16]bool
		vndAssert(len(events) <= 16, "too many trigger calls")
		cur := w.a // model cells before the transaction
		reorder := w.mergeReorder()
		// KF-delete-and-write: a transaction that deletes a row and also stores to it has the
		// deletion applied FIRST whatever the issue order (markers before updates): a merge issued
		// before the delete starts from zero and the stores land on the dead row
		delAndWrite := false
		for i := 0; i < w.pn; i++ {
			for j := 0; j < w.pn; j++ {
				if w.pRow[i] == w.pRow[j] && w.pOp[i] == 3 && (w.pOp[j] == 0 || w.pOp[j] == 1) {
					delAndWrite = true
				}
			}
		}
		vndKnown("KF-delete-and-write", delAndWrite)
		for i := 0; i < w.pn; i++ {
			s := w.pRow[i]
			var want vEvent
			switch w.pOp[i] {
			case 0, 4:
				cur[s] = vModelSet(kind, w.pNum[i], w.pStr[i])
				want = vEvent{off: w.off[s], c: cur[s]}
				if kind == vBool && !cur[s].has {
					want.del = true // SetBool(false) is encoded as the delete code
				}
			case 1:
				old := cur[s]
				cur[s] = vModelMerge(kind, cur[s], w.pNum[i], w.pStr[i])
				want = vEvent{off: w.off[s], c: cur[s]}
				if kind == vString && len(w.pStr[i]) != len(cur[s].str) {
					_ = old
				}
			case 2, 5:
				continue // column b is not watched
			case 3:
				cur[s] = vCell{}
				want = vEvent{off: w.off[s], del: true}
			}
			// the first unused event of this kind (store / row deletion) for this row must be this one:
			// stores of one row are ordered among themselves; the property does not order a row's
			// deletion against its stores
			j := 0
			for j < len(events) && (used[j] || events[j].off != want.off || events[j].del != want.del) {
				j++
			}
			vndKnown("KF-merge-reorder", reorder)
			vndAssert(j < len(events), "trigger was not called for a committed change")
			used[j] = true
			vndAssert(events[j].del == want.del, "trigger reported the wrong kind of change (or the changes of a row out of order)")
			if !want.del {
				vSameCell(events[j].c, want.c, kind, "trigger value")
			}
		}
		for j := range events {
			vndAssert(used[j], "trigger called more often than there were committed changes")
		}
		w.commitModel()
	}
	w.check(w.c, "values")
	vndObserve("events", uint64(len(events)))
}
