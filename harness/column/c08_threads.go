//go:build verif

package column

import (
	"sync"

	"github.com/kelindar/column/commit"
)

func init() {
	vndRegister("VerifC08SnapshotCut", VerifC08SnapshotCut)
}

// vCutLogger records, per commit in the order the commits reach the logger (= apply order per
// block), the block, the writer's tag (column b) and the absolute value of column a.
type vCutLogger struct {
	mu    sync.Mutex
	block []commit.Chunk
	tag   []uint64
	val   []uint64
}

func (l *vCutLogger) Append(c commit.Commit) error {
	l.mu.Lock()
	defer l.mu.Unlock()
	var tag, val uint64
	r := commit.NewReader()
	for _, u := range c.Updates {
		r.Range(u, c.Chunk, func(r *commit.Reader) {
			for r.Next() {
				if u.Column == "a" {
					val = r.Uint64()
				}
				if u.Column == "b" {
					tag = r.Uint64()
				}
			}
		})
	}
	l.block = append(l.block, c.Chunk)
	l.tag = append(l.tag, tag)
	l.val = append(l.val, val)
	return nil
}

// VerifC08SnapshotCut: a snapshot runs beside two writers (merges into one row per block, tagged
// with the writer's number in a second column; single- and two-block transactions), switching at
// the yield points of the commit and snapshot protocols. The restored value of each block's row
// must be the state after some prefix of the commits applied to that block, the prefix containing
// every commit acknowledged before Snapshot was called and nothing that reached the logger after
// it returned; a and the tag come from the same prefix; Snapshot does not fail.
func VerifC08SnapshotCut() {
	lg := &vCutLogger{}
	w := vNewWorld(vndParam("cap"), vInt64, vndParam("fam"), Options{Writer: lg})
	rows := [2]uint32{w.off[0], w.off[1]}
	var init [2]uint64
	for b := 0; b < 2; b++ {
		init[b] = vndU64("init")
		v := init[b]
		w.c.QueryAt(rows[b], func(r Row) error {
			r.SetInt64("a", int64(v))
			r.SetInt64("b", 0)
			return nil
		})
	}
	base := len(lg.block)
	two := vndParam("twoBlocks") == 1
	var done [3]bool
	var delta [3]uint64
	writer := func(i int, blocks int) int {
		delta[i] = vndU64("delta")
		return vndGo(func() {
			w.c.Query(func(txn *Txn) error {
				for b := 0; b < blocks; b++ {
					txn.QueryAt(rows[b], func(r Row) error {
						r.MergeInt64("a", int64(delta[i]))
						r.SetInt64("b", int64(i))
						return nil
					})
				}
				return nil
			})
			done[i] = true
		})
	}
	nb := 1
	if two {
		nb = 2
	}
	t1 := writer(1, nb)
	t2 := writer(2, 1)
	dst := &commit.VBuf{}
	var doneAtStart [3]bool
	var lenAtReturn int
	var serr error
	ts := vndGo(func() {
		doneAtStart = done
		serr = w.c.Snapshot(dst)
		lg.mu.Lock()
		lenAtReturn = len(lg.block)
		lg.mu.Unlock()
	})
	vndJoin(t1)
	vndJoin(t2)
	vndJoin(ts)
	vndAssert(serr == nil, "concurrent writers made Snapshot fail")

	fresh := vSchema(w, vndParam("cap"), nil)
	vndAssert(fresh.Restore(dst) == nil, "Restore failed")
	for b := 0; b < 2; b++ {
		var va, vb uint64
		fresh.QueryAt(rows[b], func(r Row) error {
			a, oka := r.Int64("a")
			t, okb := r.Int64("b")
			vndAssert(oka && okb, "restored row lost a value")
			va, vb = uint64(a), uint64(t)
			return nil
		})
		// prefix states of this block, in apply order
		ok := false
		k := 0
		kmin := 0
		pos := 0
		for e := base; e < len(lg.block); e++ {
			if lg.block[e] != commit.ChunkAt(rows[b]) {
				continue
			}
			pos++
			if lg.tag[e] < 3 && doneAtStart[lg.tag[e]] {
				kmin = pos
			}
		}
		if kmin == 0 && va == init[b] && vb == 0 {
			ok = true
		}
		for e := base; e < len(lg.block); e++ {
			if lg.block[e] != commit.ChunkAt(rows[b]) {
				continue
			}
			k++
			if k >= kmin && e < lenAtReturn && va == lg.val[e] && vb == lg.tag[e] {
				ok = true
			}
		}
		vndAssert(ok, "the restored block is not the primary's block after a prefix of its commits (commit lost, partial, out of order, or outside the snapshot's window)")
	}
	vndObserveBool("two", two)
}
