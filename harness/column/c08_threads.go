//go:build verif

package column

import (
	"sync"

	"github.com/kelindar/column/commit"
)

func init() {
	vndRegister("VerifC08SnapshotCut", VerifC08SnapshotCut)
}

// vCutLogger records every commit in the order the commits reach the logger (= apply order per
// block): the block and the (row, absolute value of a, writer tag) triples it carries.
type vCutLogger struct {
	mu    sync.Mutex
	block []commit.Chunk
	n     []int
	off   [][2]uint32
	val   [][2]uint64
	tag   [][2]uint64
}

func (l *vCutLogger) Append(c commit.Commit) error {
	l.mu.Lock()
	defer l.mu.Unlock()
	var off [2]uint32
	var val, tag [2]uint64
	n := 0
	r := commit.NewReader()
	for _, u := range c.Updates {
		if u.Column != "a" && u.Column != "b" {
			continue
		}
		r.Range(u, c.Chunk, func(r *commit.Reader) {
			for r.Next() {
				k := 0
				for k < n && off[k] != r.Index() {
					k++
				}
				if k == n {
					vndAssert(n < 2, "logger: more rows in a commit than the harness writes")
					off[n] = r.Index()
					n++
				}
				if u.Column == "a" {
					val[k] = r.Uint64()
				} else {
					tag[k] = r.Uint64()
				}
			}
		})
	}
	l.block = append(l.block, c.Chunk)
	l.n = append(l.n, n)
	l.off = append(l.off, off)
	l.val = append(l.val, val)
	l.tag = append(l.tag, tag)
	return nil
}

// VerifC08SnapshotCut: a snapshot runs beside two writers that merge into DIFFERENT rows of block
// 0 (writer 1 also into a row of block 1 when twoBlocks is set), each store tagged with the
// writer's number in a second column; switches at the yield points of the commit and snapshot
// protocols. After Restore every block must equal the primary's block after some prefix of the
// commits applied to that block (apply order = order at the logger), the prefix containing every
// commit acknowledged before Snapshot was called and nothing that reached the logger after it
// returned; Snapshot does not fail.
func VerifC08SnapshotCut() {
	lg := &vCutLogger{}
	w := vNewWorld(vndParam("cap"), vInt64, 6, Options{Writer: lg})
	rows := [3]uint32{w.off[0], w.off[1], w.off[2]} // A, B in block 0; C in block 1
	var init [3]uint64
	for i := 0; i < 3; i++ {
		init[i] = vndU64("init")
		v := init[i]
		w.c.QueryAt(rows[i], func(r Row) error {
			r.SetInt64("a", int64(v))
			r.SetInt64("b", 0)
			return nil
		})
	}
	base := len(lg.block)
	two := vndParam("twoBlocks") == 1
	var done [3]bool
	var delta [3]uint64
	writer := func(i int, targets []int) int {
		delta[i] = vndU64("delta")
		return vndGo(func() {
			w.c.Query(func(txn *Txn) error {
				for _, t := range targets {
					txn.QueryAt(rows[t], func(r Row) error {
						r.MergeInt64("a", int64(delta[i]))
						r.SetInt64("b", int64(i))
						return nil
					})
				}
				return nil
			})
			done[i] = true
		})
	}
	t1targets := []int{1}
	if two {
		t1targets = []int{1, 2}
	}
	t1 := writer(1, t1targets)
	t2 := writer(2, []int{0})
	dst := &commit.VBuf{}
	var doneAtStart [3]bool
	var lenAtReturn int
	var serr error
	ts := vndGo(func() {
		doneAtStart = done
		serr = w.c.Snapshot(dst)
		lg.mu.Lock()
		lenAtReturn = len(lg.block)
		lg.mu.Unlock()
	})
	vndJoin(t1)
	vndJoin(t2)
	vndJoin(ts)
	vndAssert(serr == nil, "concurrent writers made Snapshot fail")

	fresh := vSchema(w, vndParam("cap"), nil)
	vndAssert(fresh.Restore(dst) == nil, "Restore failed")
	var ra, rb [3]uint64
	for i := 0; i < 3; i++ {
		fresh.QueryAt(rows[i], func(r Row) error {
			a, oka := r.Int64("a")
			t, okb := r.Int64("b")
			vndAssert(oka && okb, "restored row lost a value")
			ra[i], rb[i] = uint64(a), uint64(t)
			return nil
		})
	}
	for blk := 0; blk < 2; blk++ {
		chunk := commit.Chunk(blk)
		// walk the prefix states of this block
		sa := init
		var sb [3]uint64
		same := func() bool {
			for i := 0; i < 3; i++ {
				if commit.ChunkAt(rows[i]) == chunk && (ra[i] != sa[i] || rb[i] != sb[i]) {
					return false
				}
			}
			return true
		}
		kmin, pos := 0, 0
		for e := base; e < len(lg.block); e++ {
			if lg.block[e] != chunk {
				continue
			}
			pos++
			t := lg.tag[e][0]
			if t < 3 && doneAtStart[t] {
				kmin = pos
			}
		}
		ok := kmin == 0 && same()
		k := 0
		for e := base; e < len(lg.block); e++ {
			if lg.block[e] != chunk {
				continue
			}
			k++
			for j := 0; j < lg.n[e]; j++ {
				for i := 0; i < 3; i++ {
					if rows[i] == lg.off[e][j] {
						sa[i], sb[i] = lg.val[e][j], lg.tag[e][j]
					}
				}
			}
			if k >= kmin && e < lenAtReturn && same() {
				ok = true
			}
		}
		vndAssert(ok, "a restored block is not the primary's block after a prefix of its commits (commit lost from the middle, partial, out of order, or outside the snapshot's window)")
	}
	vndObserveBool("two", two)
}
