//go:build verif

package column

import (
	"math"

	"github.com/kelindar/column/commit"
)

// ---------------------------------------------------------------------------------------
// column kinds and typed access through the public Row API

type vKind int

const (
	vInt vKind = iota
	vInt16
	vInt32
	vInt64
	vUint
	vUint16
	vUint32
	vUint64
	vFloat32
	vFloat64
	vBool
	vString
	vEnum
	vStringCat // string column with a concatenating merge function (result longer than the delta)
	vRecord    // binary record column (values are opaque byte strings behind Marshal/UnmarshalBinary)
	vNumKinds
)

// vRec is the record type of the vRecord kind: its binary form is its content. MarshalBinary
// returns a fresh slice, as the standard library's marshalers do: ForRecord's merge hands the
// decoded record back to its pool while the encoded result is still being written to the commit
// buffer, so a marshaler that returned its internal buffer (and an UnmarshalBinary that reuses
// it) would be overwritten by a merge running in another block. Such record types are outside the claim.
type vRec struct{ b []byte }

func (r *vRec) MarshalBinary() ([]byte, error) { return append([]byte(nil), r.b...), nil }
func (r *vRec) UnmarshalBinary(b []byte) error {
	r.b = append(r.b[:0], b...)
	return nil
}

// vCell is the model of one column of one row.
type vCell struct {
	has bool
	num uint64 // bit pattern, truncated to the kind's width
	str string
}

func vIsNumeric(k vKind) bool { return k <= vFloat64 }
func vIsText(k vKind) bool    { return k == vString || k == vEnum || k == vStringCat || k == vRecord }
func vCanMerge(k vKind) bool  { return k <= vFloat64 || k == vString || k == vStringCat }

func vMask(k vKind) uint64 {
	switch k {
	case vInt16, vUint16:
		return 0xffff
	case vInt32, vUint32, vFloat32:
		return 0xffffffff
	case vBool:
		return 1
	}
	return ^uint64(0)
}

func vMakeColumn(k vKind) Column {
	switch k {
	case vInt:
		return ForInt()
	case vInt16:
		return ForInt16()
	case vInt32:
		return ForInt32()
	case vInt64:
		return ForInt64()
	case vUint:
		return ForUint()
	case vUint16:
		return ForUint16()
	case vUint32:
		return ForUint32()
	case vUint64:
		return ForUint64()
	case vFloat32:
		return ForFloat32()
	case vFloat64:
		return ForFloat64()
	case vBool:
		return ForBool()
	case vString:
		return ForString()
	case vEnum:
		return ForEnum()
	case vStringCat:
		return ForString(WithMerge(func(value, delta string) string { return value + delta }))
	case vRecord:
		return ForRecord(func() *vRec { return new(vRec) })
	}
	panic("vMakeColumn: kind")
}

// vSet stores a value through the typed public setter.
func vSet(r Row, k vKind, col string, num uint64, str string) {
	switch k {
	case vInt:
		r.SetInt(col, int(num))
	case vInt16:
		r.SetInt16(col, int16(num))
	case vInt32:
		r.SetInt32(col, int32(num))
	case vInt64:
		r.SetInt64(col, int64(num))
	case vUint:
		r.SetUint(col, uint(num))
	case vUint16:
		r.SetUint16(col, uint16(num))
	case vUint32:
		r.SetUint32(col, uint32(num))
	case vUint64:
		r.SetUint64(col, num)
	case vFloat32:
		r.SetFloat32(col, math.Float32frombits(uint32(num)))
	case vFloat64:
		r.SetFloat64(col, math.Float64frombits(num))
	case vBool:
		r.SetBool(col, num&1 == 1)
	case vString, vStringCat:
		r.SetString(col, str)
	case vEnum:
		r.SetEnum(col, str)
	case vRecord:
		r.SetRecord(col, &vRec{b: []byte(str)})
	}
}

// vMerge merges a delta through the typed public API.
func vMerge(r Row, k vKind, col string, num uint64, str string) {
	switch k {
	case vInt:
		r.MergeInt(col, int(num))
	case vInt16:
		r.MergeInt16(col, int16(num))
	case vInt32:
		r.MergeInt32(col, int32(num))
	case vInt64:
		r.MergeInt64(col, int64(num))
	case vUint:
		r.MergeUint(col, uint(num))
	case vUint16:
		r.MergeUint16(col, uint16(num))
	case vUint32:
		r.MergeUint32(col, uint32(num))
	case vUint64:
		r.MergeUint64(col, num)
	case vFloat32:
		r.MergeFloat32(col, math.Float32frombits(uint32(num)))
	case vFloat64:
		r.MergeFloat64(col, math.Float64frombits(num))
	case vString, vStringCat:
		r.MergeString(col, str)
	default:
		panic("vMerge: kind cannot merge")
	}
}

// vGet reads a value through the typed public getter.
func vGet(r Row, k vKind, col string) (c vCell) {
	switch k {
	case vInt:
		v, ok := r.Int(col)
		c.num, c.has = uint64(v), ok
	case vInt16:
		v, ok := r.Int16(col)
		c.num, c.has = uint64(uint16(v)), ok
	case vInt32:
		v, ok := r.Int32(col)
		c.num, c.has = uint64(uint32(v)), ok
	case vInt64:
		v, ok := r.Int64(col)
		c.num, c.has = uint64(v), ok
	case vUint:
		v, ok := r.Uint(col)
		c.num, c.has = uint64(v), ok
	case vUint16:
		v, ok := r.Uint16(col)
		c.num, c.has = uint64(v), ok
	case vUint32:
		v, ok := r.Uint32(col)
		c.num, c.has = uint64(v), ok
	case vUint64:
		v, ok := r.Uint64(col)
		c.num, c.has = v, ok
	case vFloat32:
		v, ok := r.Float32(col)
		c.num, c.has = uint64(math.Float32bits(v)), ok
	case vFloat64:
		v, ok := r.Float64(col)
		c.num, c.has = math.Float64bits(v), ok
	case vBool:
		// a bool column cannot tell "false" from "absent"
		if r.Bool(col) {
			c.num, c.has = 1, true
		}
	case vString, vStringCat:
		c.str, c.has = r.String(col)
	case vEnum:
		c.str, c.has = r.Enum(col)
	case vRecord:
		if v, ok := r.Record(col); ok {
			c.str, c.has = string(v.(*vRec).b), true
		}
	}
	return
}

// vModelSet is the model of a put.
func vModelSet(k vKind, num uint64, str string) vCell {
	if k == vBool {
		if num&1 == 1 {
			return vCell{has: true, num: 1}
		}
		return vCell{}
	}
	if vIsText(k) {
		return vCell{has: true, str: str}
	}
	return vCell{has: true, num: num & vMask(k)}
}

// vModelMerge is the model of a merge with the default merge function: additive for numbers
// (wrap-around / IEEE), replacement for strings; a row that holds no value merges into zero.
func vModelMerge(k vKind, old vCell, num uint64, str string) vCell {
	var base uint64
	if old.has {
		base = old.num
	}
	switch k {
	case vFloat32:
		s := math.Float32frombits(uint32(base)) + math.Float32frombits(uint32(num))
		return vCell{has: true, num: uint64(math.Float32bits(s))}
	case vFloat64:
		s := math.Float64frombits(base) + math.Float64frombits(num)
		return vCell{has: true, num: math.Float64bits(s)}
	case vString:
		return vCell{has: true, str: str}
	case vStringCat:
		if old.has {
			return vCell{has: true, str: old.str + str}
		}
		return vCell{has: true, str: str}
	}
	return vCell{has: true, num: (base + num) & vMask(k)}
}

// vSameCell asserts that an observed cell equals the model.
func vSameCell(got, want vCell, k vKind, what string) {
	vndAssert(got.has == want.has, what+": presence differs from the last committed state")
	if !want.has {
		return
	}
	if vIsText(k) {
		vndAssert(got.str == want.str, what+": string value differs from the last committed value")
	} else {
		vndAssert(got.num == want.num, what+": value bits differ from the last committed value")
	}
}

// vInput draws an arbitrary value for a kind. Text values come from a small alphabet of symbolic
// strings of length <= maxLen.
func vInput(k vKind, maxLen int) (num uint64, str string) {
	switch {
	case vIsText(k):
		n := vndChoice("slen", maxLen+1)
		str = vndString("sval", n)
	case k == vBool:
		if vndBool("bval") {
			num = 1
		}
	default:
		num = vndU64("nval") & vMask(k)
	}
	return
}

// ---------------------------------------------------------------------------------------
// recording logger

// vLogger records every commit it is handed, the way a user-supplied commit.Logger would.
type vLogger struct {
	ids     []uint64
	chunks  []commit.Chunk
	commits []commit.Commit
}

func (l *vLogger) Append(c commit.Commit) error {
	l.ids = append(l.ids, c.ID)
	l.chunks = append(l.chunks, c.Chunk)
	cl := c.Clone()
	cl.ID = c.ID
	l.commits = append(l.commits, cl)
	return nil
}

// ---------------------------------------------------------------------------------------
// pre-states built through the public Replay API (what a replica would hold)

// vSeedRows makes the given offsets live rows by replaying an insert commit per block.
func vSeedRows(c *Collection, offs []uint32) {
	for i := 0; i < len(offs); {
		chunk := commit.ChunkAt(offs[i])
		buf := commit.NewBuffer(16)
		buf.Reset(rowColumn)
		j := i
		for j < len(offs) && commit.ChunkAt(offs[j]) == chunk {
			buf.PutOperation(commit.Insert, offs[j])
			j++
		}
		c.Replay(commit.Commit{ID: 1, Chunk: chunk, Updates: []*commit.Buffer{buf}})
		i = j
	}
}

// vSeedRowsB is vSeedRows plus a value in the int64 column "b" of every seeded row.
func vSeedRowsB(c *Collection, offs []uint32, vals []uint64) {
	for i := 0; i < len(offs); {
		chunk := commit.ChunkAt(offs[i])
		rows := commit.NewBuffer(16)
		rows.Reset(rowColumn)
		bs := commit.NewBuffer(16)
		bs.Reset("b")
		j := i
		for j < len(offs) && commit.ChunkAt(offs[j]) == chunk {
			rows.PutOperation(commit.Insert, offs[j])
			bs.PutInt64(commit.Put, offs[j], int64(vals[j]))
			j++
		}
		c.Replay(commit.Commit{ID: 1, Chunk: chunk, Updates: []*commit.Buffer{rows, bs}})
		i = j
	}
}

// vLiveSet returns the offsets Range visits, in order (at most max).
func vLiveSet(c *Collection, max int) (out []uint32) {
	c.Query(func(txn *Txn) error {
		return txn.Range(func(idx uint32) {
			if len(out) < max {
				out = append(out, idx)
			}
		})
	})
	return
}
