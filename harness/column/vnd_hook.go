//go:build verif

package column

// vndInstallHook connects the repository's tag-guarded yield points to the native scheduler.
func vndInstallHook() { verifHook = vndHookPoint }
