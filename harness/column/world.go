//go:build verif

package column

import (
	"errors"

	"github.com/kelindar/column/commit"
)

const vMaxRows = 8

var vErrAbort = errors.New("verif: abort transaction")

// vWorld couples a real collection with its model: a set of tracked rows (every row that exists)
// with, per row, the model of column "a" (the kind under test) and of column "b" (int64 witness).
type vWorld struct {
	c     *Collection
	kind  vKind
	n     int // tracked row slots
	off   [vMaxRows]uint32
	live  [vMaxRows]bool
	a     [vMaxRows]vCell
	b     [vMaxRows]vCell
	count int
	dense int // anonymous live rows (dense pre-state), not tracked individually
	// allowDelWrite lets a transaction delete a row it also stores to / inserted (the
	// KF-delete-and-write region); off by default
	allowDelWrite bool
	kfDelWrite    bool // the region was entered at least once (sticky)
	computed      bool // the schema also has a sorted index, a trigger and a column created after them
	// pending effects of the running transaction
	pn    int
	pOp   [8]int // 0 put a, 1 merge a, 2 put b, 3 delete, 4 insert with a, 5 insert with b only
	pRow  [8]int
	pNum  [8]uint64
	pStr  [8]string
	gone  [vMaxRows]bool // deleted by the running transaction
	fresh [vMaxRows]bool // inserted by the running transaction
}

// families of pre-existing rows (made live through Replay before the history starts)
func vFamily(f int) []uint32 {
	switch f {
	case 1:
		return []uint32{3, 64}
	case 2:
		return []uint32{16383, 16384}
	case 3:
		return []uint32{5, 40000}
	case 4:
		return []uint32{0, 1, 2, 3}
	case 6:
		return []uint32{3, 64, 16384}
	case 5: // block 0 completely full (anonymous rows), tracked rows at the start of block 1
		return []uint32{16384, 16385, 16386}
	}
	return nil
}

func vNewWorld(capacity int, kind vKind, fam int, opts Options) *vWorld {
	opts.Capacity = capacity
	w := &vWorld{c: NewCollection(opts), kind: kind}
	w.c.CreateColumn("a", vMakeColumn(kind))
	w.c.CreateColumn("b", ForInt64())
	offs := vFamily(fam)
	// every pre-existing row holds a value in the witness column b (so that a deleted row leaves
	// something behind that a later occupant of the offset must not see)
	vals := make([]uint64, len(offs))
	for i := range vals {
		vals[i] = vndU64("seedb")
	}
	vSeedRowsB(w.c, offs, vals)
	for i, o := range offs {
		w.off[w.n], w.live[w.n] = o, true
		w.b[w.n] = vCell{has: true, num: vals[i]}
		w.n++
		w.count++
	}
	if fam == 5 {
		// P-dense: every row of block 0 is live and holds nothing (representation invariant kept:
		// count = population of the fill list, no column holds a value for these rows)
		for i := 0; i < 256; i++ {
			w.c.fill[i] = ^uint64(0)
		}
		w.c.count += 16384
		w.dense = 16384
	}
	return w
}

func (w *vWorld) slotOf(off uint32) int {
	for i := 0; i < w.n; i++ {
		if w.off[i] == off {
			return i
		}
	}
	return -1
}

// pickLive chooses a live row that the running transaction has not deleted; -1 if none.
func (w *vWorld) pickLive() int {
	var cand [vMaxRows]int
	n := 0
	for i := 0; i < w.n; i++ {
		if w.live[i] && !w.gone[i] || w.fresh[i] && !w.gone[i] {
			cand[n] = i
			n++
		}
	}
	if n == 0 {
		return -1
	}
	return cand[vndChoice("row", n)]
}

func (w *vWorld) pend(op, row int, num uint64, str string) {
	w.pOp[w.pn], w.pRow[w.pn], w.pNum[w.pn], w.pStr[w.pn] = op, row, num, str
	w.pn++
}

// opMenu: bit 0 put a, bit 1 merge a, bit 2 put b, bit 3 delete, bit 4 insert (storing a),
// bit 5 insert storing only the witness column b, bit 6 insert storing nothing (a placeholder row:
// the only change of the transaction to that block may then be the row marker)
func (w *vWorld) oneOp(txn *Txn, menu int, maxLen int) {
	var ops [7]int
	n := 0
	for o := 0; o < 7; o++ {
		if menu&(1<<o) != 0 && (o != 1 || vCanMerge(w.kind)) {
			ops[n] = o
			n++
		}
	}
	op := ops[vndChoice("op", n)]
	if op >= 4 {
		if w.n >= vMaxRows {
			return
		}
		var num uint64
		var str string
		if op == 4 {
			num, str = vInput(w.kind, maxLen)
		} else if op == 5 {
			num = vndU64("bval")
		}
		off, err := txn.Insert(func(r Row) error {
			if op == 4 {
				vSet(r, w.kind, "a", num, str)
			} else if op == 5 {
				r.SetInt64("b", int64(num))
			}
			return nil
		})
		vndAssert(err == nil, "insert failed")
		vndAssert(w.slotOf(off) < 0 || !w.live[w.slotOf(off)], "insert returned the offset of a live row")
		s := w.slotOf(off)
		if s < 0 {
			s = w.n
			w.n++
			w.off[s] = off
		}
		vndAssert(!w.fresh[s], "insert returned an offset already handed out in this transaction")
		w.fresh[s] = true
		w.gone[s] = false
		w.pend(op, s, num, str)
		return
	}
	s := w.pickLive()
	if s < 0 {
		return
	}
	switch op {
	case 0:
		num, str := vInput(w.kind, maxLen)
		txn.QueryAt(w.off[s], func(r Row) error {
			vSet(r, w.kind, "a", num, str)
			return nil
		})
		w.pend(0, s, num, str)
	case 1:
		num, str := vInput(w.kind, maxLen)
		txn.QueryAt(w.off[s], func(r Row) error {
			vMerge(r, w.kind, "a", num, str)
			return nil
		})
		w.pend(1, s, num, str)
	case 2:
		num := vndU64("bval")
		txn.QueryAt(w.off[s], func(r Row) error {
			r.SetInt64("b", int64(num))
			return nil
		})
		w.pend(2, s, num, "")
	case 3:
		if !w.allowDelWrite {
			for i := 0; i < w.pn; i++ {
				if w.pRow[i] == s && w.pOp[i] != 3 {
					return // see allowDelWrite
				}
			}
		} else {
			for i := 0; i < w.pn; i++ {
				if w.pRow[i] == s && w.pOp[i] != 3 {
					w.kfDelWrite = true
				}
			}
		}
		ok := txn.DeleteAt(w.off[s])
		if !w.fresh[s] {
			vndAssert(ok == w.live[s], "DeleteAt result differs from committed liveness")
		}
		if ok {
			w.gone[s] = true
			w.pend(3, s, 0, "")
		}
	}
}

// commitModel applies the pending effects to the model, in issue order.
func (w *vWorld) commitModel() {
	for i := 0; i < w.pn; i++ {
		s := w.pRow[i]
		switch w.pOp[i] {
		case 0:
			w.a[s] = vModelSet(w.kind, w.pNum[i], w.pStr[i])
		case 1:
			w.a[s] = vModelMerge(w.kind, w.a[s], w.pNum[i], w.pStr[i])
		case 2:
			w.b[s] = vCell{has: true, num: w.pNum[i]}
		case 3:
			if w.live[s] {
				w.count--
			}
			w.live[s] = false
			w.a[s], w.b[s] = vCell{}, vCell{}
		case 4:
			if !w.live[s] {
				w.count++
			}
			w.live[s] = true
			w.a[s] = vModelSet(w.kind, w.pNum[i], w.pStr[i])
			w.b[s] = vCell{}
		case 5:
			if !w.live[s] {
				w.count++
			}
			w.live[s] = true
			w.a[s] = vCell{}
			w.b[s] = vCell{has: true, num: w.pNum[i]}
		case 6:
			if !w.live[s] {
				w.count++
			}
			w.live[s] = true
			w.a[s], w.b[s] = vCell{}, vCell{}
		}
	}
	w.clearPending()
}

// mergeReorder reports the KF-merge-reorder region for the running transaction: a string merge
// whose result has another length than its delta, followed by a later store to column a of the
// same row in the same transaction (SwapBytes then appends the merged Put AFTER that store).
func (w *vWorld) mergeReorder() bool {
	if w.kind != vStringCat {
		return false
	}
	cur := w.a
	hit := false
	for i := 0; i < w.pn; i++ {
		s := w.pRow[i]
		switch w.pOp[i] {
		case 0, 4:
			cur[s] = vModelSet(w.kind, w.pNum[i], w.pStr[i])
		case 3, 5, 6:
			cur[s] = vCell{}
		case 1:
			if cur[s].has && len(cur[s].str) > 0 {
				for j := i + 1; j < w.pn; j++ {
					if w.pRow[j] == s && (w.pOp[j] == 0 || w.pOp[j] == 1) {
						hit = true
					}
				}
			}
			cur[s] = vModelMerge(w.kind, cur[s], w.pNum[i], w.pStr[i])
		}
	}
	return hit
}

func (w *vWorld) clearPending() {
	w.pn = 0
	for i := range w.gone {
		w.gone[i], w.fresh[i] = false, false
	}
}

// check compares everything observable through the public API with the model.
func (w *vWorld) check(c *Collection, what string) {
	vndAssert(c.Count() == w.count+w.dense, what+": Count differs from the number of live rows")
	if w.dense > 0 {
		w.checkRows(c, what)
		return
	}
	// the live set, in ascending order, is exactly the model's
	live := vLiveSet(c, vMaxRows+1)
	nlive := 0
	for i := 0; i < w.n; i++ {
		if w.live[i] {
			nlive++
		}
	}
	vndAssert(len(live) == nlive, what+": Range visits a different number of rows than are live")
	for i, o := range live {
		s := w.slotOf(o)
		vndAssert(s >= 0 && w.live[s], what+": Range visits a row that is not live")
		if i > 0 {
			vndAssert(live[i-1] < o, what+": Range is not in ascending offset order")
		}
	}
	w.checkRows(c, what)
}

func (w *vWorld) checkRows(c *Collection, what string) {
	for i := 0; i < w.n; i++ {
		if !w.live[i] {
			continue
		}
		c.QueryAt(w.off[i], func(r Row) error {
			vSameCell(vGet(r, w.kind, "a"), w.a[i], w.kind, what+" column a")
			vSameCell(vGet(r, vInt64, "b"), w.b[i], vInt64, what+" column b")
			return nil
		})
	}
}

// observe emits a digest of the visible state for translator validation.
func (w *vWorld) observe(c *Collection) {
	vndObserve("count", uint64(c.Count()))
	for i := 0; i < w.n; i++ {
		if !w.live[i] {
			continue
		}
		vndObserve("off", uint64(w.off[i]))
		c.QueryAt(w.off[i], func(r Row) error {
			g := vGet(r, w.kind, "a")
			vndObserveBool("has", g.has)
			if g.has {
				if vIsText(w.kind) {
					vndObserveStr("str", g.str)
				} else {
					vndObserve("num", g.num)
				}
			}
			return nil
		})
	}
}

// vPickKind chooses the kind under test from a bit mask of kinds.
func vPickKind(mask int) vKind {
	var ks [int(vNumKinds)]vKind
	n := 0
	for k := 0; k < int(vNumKinds); k++ {
		if mask&(1<<k) != 0 {
			ks[n] = vKind(k)
			n++
		}
	}
	return ks[vndChoice("kind", n)]
}

// ---------------------------------------------------------------------------------------
// change stream bookkeeping

// vStream gathers what the collection emits, either through a user logger or a commit.Channel.
type vStream struct {
	log  *vLogger
	ch   commit.Channel
	seen int
	all  []commit.Commit
}

func vNewStream(useChannel bool) *vStream {
	s := &vStream{}
	if useChannel {
		s.ch = make(commit.Channel, 16)
	} else {
		s.log = &vLogger{}
	}
	return s
}

func (s *vStream) logger() commit.Logger {
	if s.ch != nil {
		return s.ch
	}
	return s.log
}

// drain returns the commits emitted since the previous call, in emission order.
func (s *vStream) drain() []commit.Commit {
	if s.ch != nil {
		for len(s.ch) > 0 {
			s.all = append(s.all, <-s.ch)
		}
	} else {
		s.all = s.log.commits
	}
	out := s.all[s.seen:]
	s.seen = len(s.all)
	return out
}

// pendingBlocks returns the distinct blocks the running transaction has buffered changes for.
func (w *vWorld) pendingBlocks() (blocks []commit.Chunk) {
	for i := 0; i < w.pn; i++ {
		c := commit.ChunkAt(w.off[w.pRow[i]])
		dup := false
		for _, b := range blocks {
			if b == c {
				dup = true
			}
		}
		if !dup {
			blocks = append(blocks, c)
		}
	}
	return
}

// checkStream asserts the exactly-once / identifiable / per-block ordered contract for the
// commits of one transaction. lastID holds the highest ID seen per block so far.
func vCheckStream(got []commit.Commit, want []commit.Chunk, lastID map[commit.Chunk]uint64, allIDs *[]uint64) {
	vndAssert(len(got) == len(want), "stream: number of commits differs from the number of blocks the transaction changed")
	for i, c := range got {
		found := false
		for _, b := range want {
			if b == c.Chunk {
				found = true
			}
		}
		vndAssert(found, "stream: commit for a block the transaction did not change")
		for j := 0; j < i; j++ {
			vndAssert(got[j].Chunk != c.Chunk, "stream: two commits for one block from one transaction")
		}
		vndAssert(c.ID != 0, "stream: commit ID is zero")
		for _, id := range *allIDs {
			vndAssert(id != c.ID, "stream: commit ID is not distinct")
		}
		vndAssert(c.ID > lastID[c.Chunk], "stream: commit IDs of a block do not increase in apply order")
		lastID[c.Chunk] = c.ID
		*allIDs = append(*allIDs, c.ID)
	}
}
