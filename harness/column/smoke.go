//go:build verif

package column

func init() {
	vndRegister("VerifSmoke", VerifSmoke)
}

// VerifSmoke is an engine smoke test: one insert, one read back.
func VerifSmoke() {
	c := NewCollection(Options{Capacity: 64})
	c.CreateColumn("a", ForInt64())
	v := int64(vndU64("v"))
	idx, err := c.Insert(func(r Row) error {
		r.SetInt64("a", v)
		return nil
	})
	vndAssert(err == nil, "insert failed")
	c.QueryAt(idx, func(r Row) error {
		got, ok := r.Int64("a")
		vndAssert(ok && got == v, "read back")
		return nil
	})
	vndAssert(c.Count() == 1, "count")
	vndObserve("idx", uint64(idx))
}
