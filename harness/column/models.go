//go:build verif

package column

import (
	"github.com/kelindar/bitmap"
	"github.com/kelindar/intmap"
	"github.com/kelindar/simd"
)

// Semantic summaries of library kernels that the engine does not interpret (nibble switches,
// leftPack, SIMD): used ONLY under the symbolic executor, in place of the named library function.
// Natively the real library runs, and the per-run translator validation compares the two.

// verifModelSum stands for bitmap.Sum: the sum of src[i] over the bits i set in filter, below
// min(len(src), 64*len(filter)).
func verifModelSum[T simd.Number](src []T, filter bitmap.Bitmap) (sum T) {
	for w := 0; w < len(filter) && w*64 < len(src); w++ {
		blk := filter[w]
		if blk == 0 {
			continue
		}
		for b := 0; b < 64 && w*64+b < len(src); b++ {
			if blk&(1<<b) != 0 {
				sum += src[w*64+b]
			}
		}
	}
	return
}

// verifModelMin stands for bitmap.Min.
func verifModelMin[T simd.Number](src []T, filter bitmap.Bitmap) (min T, hit bool) {
	for w := 0; w < len(filter) && w*64 < len(src); w++ {
		blk := filter[w]
		if blk == 0 {
			continue
		}
		for b := 0; b < 64 && w*64+b < len(src); b++ {
			if blk&(1<<b) != 0 && (src[w*64+b] < min || !hit) {
				min, hit = src[w*64+b], true
			}
		}
	}
	return
}

// verifModelMax stands for bitmap.Max.
func verifModelMax[T simd.Number](src []T, filter bitmap.Bitmap) (max T, hit bool) {
	for w := 0; w < len(filter) && w*64 < len(src); w++ {
		blk := filter[w]
		if blk == 0 {
			continue
		}
		for b := 0; b < 64 && w*64+b < len(src); b++ {
			if blk&(1<<b) != 0 && (src[w*64+b] > max || !hit) {
				max, hit = src[w*64+b], true
			}
		}
	}
	return
}

// verifModelFilter stands for (*bitmap.Bitmap).Filter: keep exactly the set bits for which f is true.
func verifModelFilter(dst *bitmap.Bitmap, f func(x uint32) bool) {
	for w := 0; w < len(*dst); w++ {
		blk := (*dst)[w]
		if blk == 0 {
			continue
		}
		var mask uint64
		for b := uint32(0); b < 64; b++ {
			if blk&(1<<b) != 0 && f(uint32(w)<<6+b) {
				mask |= 1 << b
			}
		}
		(*dst)[w] &= mask
	}
}

// verifModelRange stands for bitmap.Bitmap.Range: call fn for every set bit in ascending order.
func verifModelRange(dst bitmap.Bitmap, fn func(x uint32)) {
	for w := 0; w < len(dst); w++ {
		blk := dst[w]
		if blk == 0 {
			continue
		}
		for b := uint32(0); b < 64; b++ {
			if blk&(1<<b) != 0 {
				fn(uint32(w)<<6 + b)
			}
		}
	}
}

// instantiations the engine looks up by name
var verifModelInstances = []interface{}{
	verifModelSum[int],
	verifModelSum[int16],
	verifModelSum[int32],
	verifModelSum[int64],
	verifModelSum[uint],
	verifModelSum[uint16],
	verifModelSum[uint32],
	verifModelSum[uint64],
	verifModelSum[float32],
	verifModelSum[float64],
	verifModelMin[int],
	verifModelMin[int16],
	verifModelMin[int32],
	verifModelMin[int64],
	verifModelMin[uint],
	verifModelMin[uint16],
	verifModelMin[uint32],
	verifModelMin[uint64],
	verifModelMin[float32],
	verifModelMin[float64],
	verifModelMax[int],
	verifModelMax[int16],
	verifModelMax[int32],
	verifModelMax[int64],
	verifModelMax[uint],
	verifModelMax[uint16],
	verifModelMax[uint32],
	verifModelMax[uint64],
	verifModelMax[float32],
	verifModelMax[float64],
}

// ---------------------------------------------------------------------------------------
// intmap.Map (open-addressing hash map uint32 -> uint32): a list with linear search. Key 0 is a
// valid key in the real map (kept in a side slot); the model has no special case.

type vIntMap struct {
	keys []uint32
	vals []uint32
}

var vIntMaps = map[*intmap.Map]*vIntMap{}

func verifModelIntmapNew(size int, fillFactor float64) *intmap.Map {
	h := new(intmap.Map)
	vIntMaps[h] = &vIntMap{}
	return h
}

func verifModelIntmapLoad(m *intmap.Map, key uint32) (uint32, bool) {
	s := vIntMaps[m]
	for i, k := range s.keys {
		if k == key {
			return s.vals[i], true
		}
	}
	return 0, false
}

func verifModelIntmapStore(m *intmap.Map, key, val uint32) {
	s := vIntMaps[m]
	for i, k := range s.keys {
		if k == key {
			s.vals[i] = val
			return
		}
	}
	s.keys = append(s.keys, key)
	s.vals = append(s.vals, val)
}

func verifModelIntmapCount(m *intmap.Map) int { return len(vIntMaps[m].keys) }
