//go:build verif

package column

func init() {
	vndRegister("VerifC16Sorted", VerifC16Sorted)
}

// checkSorted asserts that ascending iteration over the sorted index visits exactly the selected
// rows that hold a value in column a, each once, in non-decreasing order of the current values.
func (w *vWorld) checkSorted(c *Collection, index string, filterB bool, what string) {
	var order [vMaxRows + 1]uint32
	n := 0
	c.Query(func(txn *Txn) error {
		if filterB {
			txn.With("b") // rows that hold a value in the witness column
		}
		return txn.Ascend(index, func(idx uint32) {
			if n < len(order) {
				order[n] = idx
			}
			n++
		})
	})
	want := 0
	for i := 0; i < w.n; i++ {
		if w.live[i] && w.a[i].has && (!filterB || w.b[i].has) {
			want++
		}
	}
	vndAssert(n == want, what+": sorted iteration visits a different number of rows than hold a value")
	var seen [vMaxRows]bool
	prev := -1
	for i := 0; i < n; i++ {
		s := w.slotOf(order[i])
		vndAssert(s >= 0 && w.live[s] && w.a[s].has && (!filterB || w.b[s].has), what+": sorted iteration visits a row outside the selection")
		vndAssert(!seen[s], what+": sorted iteration visits a row twice")
		seen[s] = true
		if prev >= 0 {
			vndAssert(!(w.a[s].str < w.a[prev].str), what+": sorted iteration is not in non-decreasing order of the current values")
		}
		prev = s
	}
}

// VerifC16Sorted: histories of inserts, overwrites, merges and deletes of a string column with a
// sorted index created before or after the data; duplicates are forced by the solver (symbolic
// strings of length <= 1), a filter is combined with the iteration.
func VerifC16Sorted() {
	w := vNewWorld(vndParam("cap"), vString, vndParam("fam"), Options{})
	T, M := vndParam("T"), vndParam("M")
	menu, maxLen := vndParam("menu"), vndParam("maxLen")
	late := vndChoice("late", 2) == 1
	if !late {
		vndAssert(w.c.CreateSortIndex("sorted", "a") == nil, "CreateSortIndex failed")
	}
	for t := 0; t < T; t++ {
		err := w.c.Query(func(txn *Txn) error {
			for i := 0; i < M; i++ {
				w.oneOp(txn, menu, maxLen)
			}
			return nil
		})
		vndAssert(err == nil, "transaction failed")
		vndKnown("KF-merge-reorder", w.mergeReorder())
		w.commitModel()
		if late && t == 0 {
			vndAssert(w.c.CreateSortIndex("sorted", "a") == nil, "CreateSortIndex failed")
		}
		w.checkSorted(w.c, "sorted", false, "all rows")
		w.checkSorted(w.c, "sorted", true, "filtered")
	}
	w.check(w.c, "values")
	vndObserve("count", uint64(w.count))
}
