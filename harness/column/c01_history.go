//go:build verif

package column

func init() {
	vndRegister("VerifC01History", VerifC01History)
}

// VerifC01History: after every committed transaction of a history of inserts, puts, merges and
// deletes (arbitrary values, rows in one or several blocks, offset reuse), every column of every
// live row reads back exactly the last committed value.
func VerifC01History() {
	kind := vPickKind(vndParam("kinds"))
	w := vNewWorld(vndParam("cap"), kind, vndParam("fam"), Options{})
	w.allowDelWrite = vndParam("delwrite") == 1
	T, M := vndParam("T"), vndParam("M")
	menu := vndParam("menu")
	maxLen := vndParam("maxLen")
	for t := 0; t < T; t++ {
		err := w.c.Query(func(txn *Txn) error {
			for i := 0; i < M; i++ {
				w.oneOp(txn, menu, maxLen)
			}
			return nil
		})
		vndAssert(err == nil, "transaction failed")
		vndKnown("KF-merge-reorder", w.mergeReorder())
		// KF-delete-and-write: a transaction that stores to (or inserts) a row and deletes it has
		// the deletion applied first; the stores land on the dead row and the next occupant of the
		// offset sees them
		vndKnown("KF-delete-and-write", w.kfDelWrite)
		w.commitModel()
		w.check(w.c, "after commit")
	}
	w.observe(w.c)
}
