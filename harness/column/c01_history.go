//go:build verif

package column

import "github.com/kelindar/column/commit"

func init() {
	vndRegister("VerifC01History", VerifC01History)
}

// VerifC01History: after every committed transaction of a history of inserts, puts, merges and
// deletes (arbitrary values, rows in one or several blocks, offset reuse), every column of every
// live row reads back exactly the last committed value.
func VerifC01History() {
	kind := vPickKind(vndParam("kinds"))
	w := vNewWorld(vndParam("cap"), kind, vndParam("fam"), Options{})
	w.allowDelWrite = vndParam("delwrite") == 1
	T, M := vndParam("T"), vndParam("M")
	menu := vndParam("menu")
	maxLen := vndParam("maxLen")
	for t := 0; t < T; t++ {
		err := w.c.Query(func(txn *Txn) error {
			for i := 0; i < M; i++ {
				w.oneOp(txn, menu, maxLen)
			}
			return nil
		})
		vndAssert(err == nil, "transaction failed")
		vndKnown("KF-merge-reorder", w.mergeReorder())
		// KF-delete-and-write: a transaction that stores to (or inserts) a row and deletes it has
		// the deletion applied first; the stores land on the dead row and the next occupant of the
		// offset sees them
		vndKnown("KF-delete-and-write", w.kfDelWrite)
		w.commitModel()
		w.check(w.c, "after commit")
	}
	w.observe(w.c)
}

func init() {
	vndRegister("VerifC01LateColumn", VerifC01LateColumn)
	vndRegister("VerifC08InFlightSnapshot", VerifC08InFlightSnapshot)
}

// VerifC01LateColumn: a column of the kind under test is created AFTER rows exist in several
// blocks (sparse layouts included, Capacity smaller than the highest offset); every row then
// accepts a value in it and reads it back, rows that were not written read absent.
func VerifC01LateColumn() {
	kind := vPickKind(vndParam("kinds"))
	w := vNewWorld(vndParam("cap"), vInt64, vndParam("fam"), Options{})
	vndAssert(w.c.CreateColumn("late", vMakeColumn(kind)) == nil, "CreateColumn failed")
	var cells [vMaxRows]vCell
	for i := 0; i < w.n; i++ {
		w.c.QueryAt(w.off[i], func(r Row) error {
			vSameCell(vGet(r, kind, "late"), vCell{}, kind, "late column before any write")
			return nil
		})
		if vndChoice("write", 2) == 1 {
			num, str := vInput(kind, 1)
			w.c.QueryAt(w.off[i], func(r Row) error {
				vSet(r, kind, "late", num, str)
				return nil
			})
			cells[i] = vModelSet(kind, num, str)
		}
	}
	for i := 0; i < w.n; i++ {
		w.c.QueryAt(w.off[i], func(r Row) error {
			vSameCell(vGet(r, kind, "late"), cells[i], kind, "late column")
			return nil
		})
	}
	w.check(w.c, "other columns")
	vndObserve("n", uint64(w.n))
}

// VerifC08InFlightSnapshot: the single-threaded corner of C08 - Snapshot is called from inside an
// insert callback whose reservation extended the collection into a block that no commit has
// created yet (block 0 completely full). Snapshot must neither fail nor panic.
func VerifC08InFlightSnapshot() {
	c := NewCollection(Options{Capacity: vndParam("cap")})
	c.CreateColumn("a", ForInt64())
	// P-dense: block 0 is full (through the real commit path for the capacity, then the fill bits)
	vSeedRows(c, []uint32{0})
	c.fill.Grow(16383)
	for i := 0; i < 256; i++ {
		c.fill[i] = ^uint64(0)
	}
	c.count = 16384
	var serr error
	off, err := c.Insert(func(r Row) error {
		r.SetInt64("a", 1)
		serr = c.Snapshot(&commit.VBuf{})
		return nil
	})
	vndAssert(err == nil && off == 16384, "insert into the new block")
	vndAssert(serr == nil, "Snapshot failed while an insert was in flight")
	vndObserve("off", uint64(off))
}

func init() { vndRegister("VerifC01LongString", VerifC01LongString) }

// VerifC01LongString: a string / enum value of length 0, 255, 256 and 65535 with arbitrary bytes
// at three positions is stored, overwritten and read back byte for byte, beside a second row.
func VerifC01LongString() {
	kind := vPickKind(vndParam("kinds"))
	w := vNewWorld(vndParam("cap"), kind, 2, Options{})
	lens := [4]int{0, 255, 256, 65535}
	n := lens[vndChoice("len", 4)]
	b := make([]byte, n)
	for i := range b {
		b[i] = byte(i*5 + 1)
	}
	if n > 0 {
		b[0], b[n/2], b[n-1] = vndU8("first"), vndU8("mid"), vndU8("last")
	}
	long := string(b)
	short := vndString("short", 1)
	w.c.QueryAt(w.off[0], func(r Row) error { vSet(r, kind, "a", 0, long); return nil })
	w.c.QueryAt(w.off[1], func(r Row) error { vSet(r, kind, "a", 0, short); return nil })
	w.a[0], w.a[1] = vCell{has: true, str: long}, vCell{has: true, str: short}
	w.check(w.c, "long value stored")
	w.c.QueryAt(w.off[1], func(r Row) error { vSet(r, kind, "a", 0, long); return nil })
	w.c.QueryAt(w.off[0], func(r Row) error { vSet(r, kind, "a", 0, short); return nil })
	w.a[1], w.a[0] = vCell{has: true, str: long}, vCell{has: true, str: short}
	w.check(w.c, "long and short values swapped")
	vndObserve("n", uint64(n))
}
