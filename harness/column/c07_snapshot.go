//go:build verif

package column

import (
	"os"
	"path/filepath"

	"github.com/kelindar/column/commit"
)

func init() {
	vndRegister("VerifC07Restore", VerifC07Restore)
	vndRegister("VerifC14FailedSnapshot", VerifC14FailedSnapshot)
}

// vLeaks reports open descriptors and temp files: from the file model under the symbolic executor,
// from /proc and the temp directory natively.
func vLeaks() (open, linked int) {
	if vndSymbolic() {
		return commit.VerifLeaks()
	}
	fds, _ := os.ReadDir("/proc/self/fd")
	tmps, _ := filepath.Glob(filepath.Join(os.TempDir(), "column_*.log"))
	return len(fds), len(tmps)
}

// vSchema creates an empty collection with the schema of w (and the index, if rule is non-nil).
func vSchema(w *vWorld, capacity int, rule func(Reader) bool) *Collection {
	c := NewCollection(Options{Capacity: capacity})
	c.CreateColumn("a", vMakeColumn(w.kind))
	c.CreateColumn("b", ForInt64())
	if rule != nil {
		vndAssert(c.CreateIndex("idx", "a", rule) == nil, "CreateIndex failed")
	}
	if w.computed {
		vComputed(c)
	}
	return c
}

// vComputed adds computed columns that are not bitmap indexes (a sorted index and a trigger) and,
// AFTER them, one more data column: the snapshot's per-block buffer count has to agree with what
// the columns actually emit.
func vComputed(c *Collection) {
	vndAssert(c.CreateSortIndex("srt", "b") == nil, "CreateSortIndex failed")
	vndAssert(c.CreateTrigger("trg", "b", func(r Reader) {}) == nil, "CreateTrigger failed")
	vndAssert(c.CreateColumn("late", ForInt64()) == nil, "CreateColumn failed")
}

// VerifC07Restore: a collection reached by a history (arbitrary values, one or several blocks,
// deleted and reused offsets, an index) is snapshotted and restored into a fresh collection with
// the same schema: identical rows at identical offsets, values, index, Count. The restored
// collection then runs another transaction like the model (new inserts never land on restored
// rows) and round-trips through a second snapshot.
func VerifC07Restore() {
	kind := vPickKind(vndParam("kinds"))
	w := vNewWorld(vndParam("cap"), kind, vndParam("fam"), Options{})
	rule, oracle := vPredicate(kind)
	vndAssert(w.c.CreateIndex("idx", "a", rule) == nil, "CreateIndex failed")
	var late [vMaxRows]uint64
	if vndParam("computed") == 1 {
		w.computed = true
		vComputed(w.c)
		for i := 0; i < w.n; i++ {
			late[i] = vndU64("late")
			v := late[i]
			w.c.QueryAt(w.off[i], func(r Row) error { r.SetInt64("late", int64(v)); return nil })
		}
	}
	nlate := w.n
	checkLate := func(c *Collection, what string) {
		if !w.computed {
			return
		}
		for i := 0; i < nlate; i++ {
			if !w.live[i] {
				continue
			}
			c.QueryAt(w.off[i], func(r Row) error {
				v, ok := r.Int64("late")
				vndAssert(ok && uint64(v) == late[i], what+": a column created after a sorted index / trigger lost its value")
				return nil
			})
		}
	}
	T, M := vndParam("T"), vndParam("M")
	menu, maxLen := vndParam("menu"), vndParam("maxLen")
	round := func(what string) {
		open0, linked0 := vLeaks()
		dst := &commit.VBuf{}
		vndAssert(w.c.Snapshot(dst) == nil, what+": Snapshot failed")
		open1, linked1 := vLeaks()
		vndAssert(open1 == open0, what+": Snapshot left a file descriptor open")
		vndAssert(linked1 == linked0, what+": Snapshot left a temporary file behind")
		fresh := vSchema(w, vndParam("cap2"), rule)
		vndAssert(fresh.Restore(dst) == nil, what+": Restore failed")
		w.check(fresh, what+" restored")
		w.checkIndex(fresh, "idx", oracle, what+" restored")
		checkLate(fresh, what+" restored")
		w.c = fresh
	}
	for t := 0; t < T; t++ {
		err := w.c.Query(func(txn *Txn) error {
			for i := 0; i < M; i++ {
				w.oneOp(txn, menu, maxLen)
			}
			return nil
		})
		vndAssert(err == nil, "transaction failed")
		vndKnown("KF-merge-reorder", w.mergeReorder())
		w.commitModel()
	}
	round("first snapshot")
	// the restored collection keeps working
	err := w.c.Query(func(txn *Txn) error {
		for i := 0; i < M; i++ {
			w.oneOp(txn, menu, maxLen)
		}
		return nil
	})
	vndAssert(err == nil, "transaction on the restored collection failed")
	vndKnown("KF-merge-reorder", w.mergeReorder())
	w.commitModel()
	w.check(w.c, "restored, after another transaction")
	w.checkIndex(w.c, "idx", oracle, "restored, after another transaction")
	if vndParam("twice") == 1 {
		round("second snapshot")
	}
	w.observe(w.c)
}

// VerifC14FailedSnapshot: the destination writer starts failing at write call k (once or for
// ever, k arbitrary): Snapshot reports an error iff a destination write failed, the collection keeps
// working, a later Snapshot to a healthy writer succeeds and restores to the model, and no call -
// failed or not - leaves a descriptor open or a temp file behind.
func VerifC14FailedSnapshot() {
	commit.VS2Through = vndSymbolic() && vndParam("through") == 1
	kind := vPickKind(vndParam("kinds"))
	w := vNewWorld(vndParam("cap"), kind, vndParam("fam"), Options{})
	// something in column a
	w.c.Query(func(txn *Txn) error {
		w.oneOp(txn, 1, 1)
		return nil
	})
	w.commitModel()
	open0, linked0 := vLeaks()

	// an in-flight commit while the snapshot runs makes the copy phase write too: the destination's
	// first write performs a transaction (the recorder is open at that moment)
	during := vndParam("during") == 1
	dst := &commit.VBuf{Inject: true, FailPhase: vndChoice("phase", 3), // 0 state, 1 copy of the recorded log, 2 never
		 FailAt: vndChoice("failAt", vndParam("maxWrites")+1), FailOnce: vndChoice("once", 2) == 1}
	if during {
		dst.OnFirstWrite = func() {
			w.c.Query(func(txn *Txn) error {
				w.oneOp(txn, 4, 1)
				return nil
			})
			w.commitModel()
		}
	}
	err := w.c.Snapshot(dst)
	vndAssert((err != nil) == dst.Failed, "Snapshot error does not match what the destination reported")
	vndCover("failed-snapshot", err != nil)
	vndCover("clean-snapshot", err == nil)
	open1, linked1 := vLeaks()
	vndAssert(open1 == open0, "Snapshot (failed or not) left a file descriptor open")
	vndAssert(linked1 == linked0, "Snapshot (failed or not) left a temporary file behind")
	_, snapshotting := w.c.isSnapshotting()
	vndAssert(!snapshotting, "the commit recorder is still installed after Snapshot returned")

	// the collection keeps working
	// (a transaction over two columns: each column's updates travel in a page of their own, taken
	// from the pool the snapshot's scratch page went back to)
	werr := w.c.Query(func(txn *Txn) error {
		w.oneOp(txn, 1|16, 1)
		w.oneOp(txn, 4, 1)
		return nil
	})
	vndAssert(werr == nil, "transaction after the snapshot failed")
	w.commitModel()
	w.check(w.c, "after the failed snapshot")

	// a later snapshot to a healthy writer succeeds and restores correctly
	good := &commit.VBuf{}
	vndAssert(w.c.Snapshot(good) == nil, "a later Snapshot to a healthy writer failed")
	open2, linked2 := vLeaks()
	vndAssert(open2 == open0 && linked2 == linked0, "the later Snapshot leaked")
	fresh := vSchema(w, vndParam("cap"), nil)
	vndAssert(fresh.Restore(good) == nil, "Restore of the later snapshot failed")
	w.check(fresh, "restored from the later snapshot")
	vndObserveBool("failed", dst.Failed)
}

// matches reports (without asserting) whether collection c shows exactly the model's state.
func (w *vWorld) matches(c *Collection) bool {
	ok := c.Count() == w.count
	live := vLiveSet(c, vMaxRows+1)
	n := 0
	for i := 0; i < w.n; i++ {
		if w.live[i] {
			n++
		}
	}
	if len(live) != n {
		return false
	}
	for _, o := range live {
		s := w.slotOf(o)
		if s < 0 || !w.live[s] {
			return false
		}
	}
	for i := 0; i < w.n; i++ {
		if !w.live[i] {
			continue
		}
		c.QueryAt(w.off[i], func(r Row) error {
			a, b := vGet(r, w.kind, "a"), vGet(r, vInt64, "b")
			if a.has != w.a[i].has || b.has != w.b[i].has {
				ok = false
			}
			if a.has && w.a[i].has {
				if vIsText(w.kind) {
					ok = ok && a.str == w.a[i].str
				} else {
					ok = ok && a.num == w.a[i].num
				}
			}
			if b.has && w.b[i].has {
				ok = ok && b.num == w.b[i].num
			}
			return nil
		})
	}
	return ok
}

func init() { vndRegister("VerifC13SnapshotTruncation", VerifC13SnapshotTruncation) }

// VerifC13SnapshotTruncation: a snapshot (taken while one transaction commits, so that the log
// tail is not empty) is cut at EVERY byte offset. Restore of the prefix returns an error, or the
// restored collection equals the original at a commit boundary: the complete block states, with
// or without the logged commit - never anything in between, never a panic.
func VerifC13SnapshotTruncation() {
	kind := vPickKind(vndParam("kinds"))
	w := vNewWorld(vndParam("cap"), kind, vndParam("fam"), Options{})
	w.c.Query(func(txn *Txn) error {
		w.oneOp(txn, 1, 1)
		return nil
	})
	w.commitModel()
	var before vWorld
	dst := &commit.VBuf{}
	dst.OnFirstWrite = func() {
		before = *w
		w.c.Query(func(txn *Txn) error {
			w.oneOp(txn, 1|16, 1)
			return nil
		})
		w.commitModel()
	}
	vndAssert(w.c.Snapshot(dst) == nil, "Snapshot failed")
	total := len(dst.Data)
	cut := vndChoice("cut", total+1)
	fresh := vSchema(w, vndParam("cap"), nil)
	err := fresh.Restore(&commit.VBuf{Data: dst.Data, HasCut: true, Cut: cut})
	vndCover("restore-error", err != nil)
	vndCover("restore-ok-truncated", err == nil && cut < total)
	if cut == total {
		vndAssert(err == nil, "the complete snapshot does not restore")
		w.check(fresh, "complete snapshot")
	}
	if err == nil {
		m1 := before.matches(fresh)
		m2 := w.matches(fresh)
		vndAssert(m1 || m2, "a truncated snapshot restored without an error to a state that is not a commit boundary of the original")
	}
	vndObserve("cut", uint64(cut))
}
