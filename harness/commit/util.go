//go:build verif

package commit

import "math"

func f64frombits(v uint64) float64 { return math.Float64frombits(v) }
func f32frombits(v uint32) float32 { return math.Float32frombits(v) }
func f64bits(v float64) uint64     { return math.Float64bits(v) }
func f32bits(v float32) uint32     { return math.Float32bits(v) }
