//go:build verif

package commit

func init() {
	vndRegister("VerifC13LogTruncation", VerifC13LogTruncation)
	vndRegister("VerifC13CodecTruncation", VerifC13CodecTruncation)
}

// vBuildCommit makes a commit for block c with one buffer holding K operations in that block
// (symbolic values, low offset bits symbolic).
func vBuildCommit(id uint64, c Chunk, K int, ops *[4]vOp) Commit {
	b := NewBuffer(16)
	b.Reset("col")
	big := vndParam("big")
	for i := 0; i < K; i++ {
		var o vOp
		o.kind = vkW2
		if vndChoice("ckind", 2) == 1 {
			o.kind = vkBytes
		}
		if big > 0 && i == 0 {
			// one long payload (concrete bytes): encodings longer than any small-read fast path
			o.kind, o.op = vkBytes, Put
			o.off = uint32(c)<<chunkShift | 5
			o.str = make([]byte, big)
			for j := range o.str {
				o.str[j] = byte(j)
			}
			b.PutBytes(o.op, o.off, o.str)
			ops[i] = o
			continue
		}
		o.op = Put
		o.off = uint32(c)<<chunkShift | uint32(vndU8("coff"))
		switch o.kind {
		case vkW2:
			o.val = uint64(vndU16("cv"))
			b.PutUint16(o.op, o.off, uint16(o.val))
		case vkBytes:
			o.str = vndBytes("cs", 1)
			b.PutBytes(o.op, o.off, o.str)
		}
		ops[i] = o
	}
	return Commit{ID: id, Chunk: c, Updates: []*Buffer{b}}
}

// VerifC13LogTruncation: a log of N commits written through the real Log.Append is cut at EVERY
// byte offset; Range over the prefix delivers a prefix of the commits, each whole and in order, or
// returns an error - it never panics and never hands out part of a commit.
func VerifC13LogTruncation() {
	VS2Through = vndSymbolic() && vndParam("through") == 1
	N, K := vndParam("N"), vndParam("K")
	file := &VBuf{}
	log := Open(file)
	var ops [3][4]vOp
	var blocks [3]Chunk
	for i := 0; i < N; i++ {
		blocks[i] = Chunk(vndChoice("block", 2))
		c := vBuildCommit(uint64(100+i), blocks[i], K, &ops[i])
		vndAssert(log.Append(c) == nil, "Append failed")
	}
	total := len(file.Data)
	cut := vndChoice("cut", total+1)
	vndCover("cut-inside", cut > 0 && cut < total)
	vndCover("cut-none", cut == total)
	got := 0
	err := Open(&VBuf{Data: file.Data, HasCut: true, Cut: cut}).Range(func(c Commit) error {
		vndAssert(got < N, "Range delivers more commits than were logged")
		vndAssert(c.ID == uint64(100+got), "commit delivered out of order (or with a wrong ID)")
		vndAssert(c.Chunk == blocks[got], "commit delivered with a wrong block")
		vndAssert(len(c.Updates) == 1, "commit delivered with a different number of buffers")
		vCheckBlock(c.Updates[0], c.Chunk, &ops[got], K, "delivered commit")
		got++
		return nil
	})
	if cut == total {
		vndAssert(err == nil && got == N, "the complete log does not read back completely")
	}
	if err == nil {
		// a silent end is only acceptable at a commit boundary: every delivered commit was whole
		// (asserted above); nothing more to require
		vndCover("silent-prefix", got < N)
	}
	vndObserve("got", uint64(got))
	vndObserveBool("err", err != nil)
}

// VerifC13CodecTruncation: the plain (uncompressed) encoding of a commit cut at every byte:
// Commit.ReadFrom must report an error for every proper prefix.
func VerifC13CodecTruncation() {
	K := vndParam("K")
	var ops [4]vOp
	c := vBuildCommit(7, Chunk(vndChoice("block", 2)), K, &ops)
	w := &VBuf{}
	_, err := c.WriteTo(w)
	vndAssert(err == nil, "WriteTo failed")
	total := len(w.Data)
	cut := vndChoice("cut", total)
	var dst Commit
	_, err = dst.ReadFrom(&VBuf{Data: w.Data, HasCut: true, Cut: cut})
	vndAssert(err != nil, "Commit.ReadFrom accepted a truncated encoding without an error")
	vndObserve("cut", uint64(cut))
}

func init() { vndRegister("VerifC13LongCodecTruncation", VerifC13LongCodecTruncation) }

// VerifC13LongCodecTruncation: a commit whose single update buffer is longer than 64 KiB (two
// 40000-byte values, arbitrary bytes at their ends and middles), cut at positions around the
// payload's start, the 64 KiB mark, the boundary between the two values and the end: ReadFrom
// must report an error for each of these proper prefixes, and read the complete encoding back.
func VerifC13LongCodecTruncation() {
	b := NewBuffer(16)
	b.Reset("col")
	o1 := vndU32("off")
	vndAssume(o1&(1<<chunkShift-1) != 1<<chunkShift-1) // both values in the block the commit is for
	b.PutBytes(Put, o1, vLongBytes(40000))
	b.PutBytes(Put, o1+1, vLongBytes(40000))
	c := Commit{ID: 7, Chunk: Chunk(o1 >> chunkShift), Updates: []*Buffer{b}}
	w := &VBuf{}
	_, err := c.WriteTo(w)
	vndAssert(err == nil, "WriteTo failed")
	total := len(w.Data)
	start := total - len(b.buffer) // first byte of the payload
	cuts := [10]int{start, start + 1, start + 40000, start + 65535, start + 65536, start + 65537, total - 40000, total - 2, total - 1, total}
	cut := cuts[vndChoice("cut", len(cuts))]
	var dst Commit
	_, err = dst.ReadFrom(&VBuf{Data: w.Data, HasCut: true, Cut: cut})
	if cut < total {
		vndAssert(err != nil, "Commit.ReadFrom accepted a truncated encoding of a long buffer without an error")
	} else {
		vndAssert(err == nil && len(dst.Updates) == 1 && len(dst.Updates[0].buffer) == len(b.buffer), "the complete encoding of a long buffer does not read back")
	}
	vndObserve("cut", uint64(cut))
	vndObserveBool("err", err != nil)
}
