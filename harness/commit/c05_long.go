//go:build verif

package commit

func init() {
	vndRegister("VerifC05LongPayload", VerifC05LongPayload)
}

// vLongBytes builds a payload of n bytes: a fixed pattern with ARBITRARY bytes at the first, a
// middle and the last position (so that content, not only length, is decided by the solver).
func vLongBytes(n int) []byte {
	b := make([]byte, n)
	for i := range b {
		b[i] = byte(i*7 + 3)
	}
	if n > 0 {
		b[0] = vndU8("first")
		b[n/2] = vndU8("mid")
		b[n-1] = vndU8("last")
	}
	return b
}

// VerifC05LongPayload: one variable-size operation of length 0, 1, 255, 256, 65535 (the format's
// maximum) between two fixed-size operations at arbitrary offsets: length header, content and the
// following operation read back intact, sequentially, block-wise and through the commit codec.
func VerifC05LongPayload() {
	lens := [5]int{0, 1, 255, 256, 65535}
	n := lens[vndChoice("len", 5)]
	b := NewBuffer(16)
	b.Reset("col")
	o1, o2, o3 := vndU32("off"), vndU32("off"), vndU32("off")
	v1, v3 := vndU32("v"), vndU64("w")
	payload := vLongBytes(n)
	op := OpType(vndU8("op") & 7)
	vndAssume(op <= Skip)
	b.PutUint32(Put, o1, v1)
	b.PutBytes(op, o2, payload)
	b.PutUint64(Merge, o3, v3)

	r := NewReader()
	r.Seek(b)
	vndAssert(r.Next() && r.Type == Put && r.Index() == o1 && r.Uint32() == v1, "operation before the long value")
	vndAssert(r.Next(), "long value missing")
	vndAssert(r.Type == op && r.Index() == o2, "long value: type or offset")
	got := r.Bytes()
	vndAssert(len(got) == n, "long value: length")
	if n > 0 {
		vndAssert(got[0] == payload[0] && got[n/2] == payload[n/2] && got[n-1] == payload[n-1], "long value: arbitrary bytes")
		for _, i := range [4]int{1 % n, n / 3, (2 * n) / 3, (n + n - 2) % n} {
			vndAssert(got[i] == payload[i], "long value: pattern byte")
		}
	}
	vndAssert(r.Next() && r.Type == Merge && r.Index() == o3 && r.Uint64() == v3, "operation after the long value")
	vndAssert(!r.Next(), "extra operation")

	// through the commit codec, for the block of the long value
	c := Chunk(o2 >> chunkShift)
	src := Commit{ID: 9, Chunk: c, Updates: []*Buffer{b}}
	w := &VBuf{}
	_, err := src.WriteTo(w)
	vndAssert(err == nil, "WriteTo failed")
	var dst Commit
	_, err = dst.ReadFrom(w)
	vndAssert(err == nil && len(dst.Updates) == 1, "ReadFrom failed")
	seen := false
	r.Range(dst.Updates[0], c, func(r *Reader) {
		for r.Next() {
			if r.Index() == o2 && len(r.Bytes()) == n && r.Type == op {
				g := r.Bytes()
				if n == 0 || (g[0] == payload[0] && g[n/2] == payload[n/2] && g[n-1] == payload[n-1]) {
					seen = true
				}
			}
		}
	})
	vndAssert(seen, "the long value did not survive the commit codec")
	vndObserve("n", uint64(n))
}
