//go:build verif

package commit

func init() {
	vndRegister("VerifC05RoundTrip", VerifC05RoundTrip)
	vndRegister("VerifC05Typed", VerifC05Typed)
}

// kinds of operations by value-width class
const (
	vkOp    = 0 // PutOperation (no value): delete / insert / put-true / put-false / skip
	vkW2    = 1 // 2-byte value
	vkW4    = 2 // 4-byte value
	vkW8    = 3 // 8-byte value
	vkBytes = 4 // variable-size value
	vkN     = 5
)

type vOp struct {
	kind int
	op   OpType
	off  uint32
	val  uint64
	str  []byte
}

// vWriteOp writes one arbitrary operation through the public Buffer API and returns what was
// written.
func vWriteOp(b *Buffer, maxLen int) vOp { return vWriteOpOf(b, maxLen, false) }

// vWriteOp3 draws from three kinds (value-less, 8-byte, variable-size): the widths in between
// differ only in a size table entry that the two-operation instances cover.
func vWriteOp3(b *Buffer, maxLen int) vOp {
	var o vOp
	o.kind = [3]int{vkOp, vkW8, vkBytes}[vndChoice("kind3", 3)]
	o.op = OpType(vndU8("op") & 7)
	vndAssume(o.op <= Skip)
	o.off = vndU32("off")
	switch o.kind {
	case vkOp:
		b.PutOperation(o.op, o.off)
	case vkW8:
		o.val = vndU64("v64")
		b.PutUint64(o.op, o.off, o.val)
	case vkBytes:
		n := vndChoice("len", maxLen+1)
		o.str = vndBytes("s", n)
		b.PutBytes(o.op, o.off, o.str)
	}
	return o
}

// vWriteOpOf with few=true restricts the kinds to a value-less and a variable-size operation
// (enough where the payload bytes are opaque to the code under test).
func vWriteOpOf(b *Buffer, maxLen int, few bool) vOp {
	var o vOp
	if few {
		o.kind = vkOp
		if vndChoice("kind2", 2) == 1 {
			o.kind = vkBytes
		}
	} else {
		o.kind = vndChoice("kind", vkN)
	}
	o.op = OpType(vndU8("op") & 7)
	vndAssume(o.op <= Skip)
	o.off = vndU32("off")
	switch o.kind {
	case vkOp:
		b.PutOperation(o.op, o.off)
	case vkW2:
		o.val = uint64(vndU16("v16"))
		b.PutUint16(o.op, o.off, uint16(o.val))
	case vkW4:
		o.val = uint64(vndU32("v32"))
		b.PutUint32(o.op, o.off, uint32(o.val))
	case vkW8:
		o.val = vndU64("v64")
		b.PutUint64(o.op, o.off, o.val)
	case vkBytes:
		n := vndChoice("len", maxLen+1)
		o.str = vndBytes("s", n)
		b.PutBytes(o.op, o.off, o.str)
	}
	return o
}

// vCheckOp asserts that the reader is positioned on exactly the operation o.
func vCheckOp(r *Reader, o *vOp, what string) {
	vndAssert(r.Type == o.op, what+": operation type differs")
	vndAssert(r.Index() == o.off, what+": offset differs")
	vndAssert(r.Offset == int32(o.off), what+": Offset field differs")
	switch o.kind {
	case vkOp:
		vndAssert(len(r.Bytes()) == 0, what+": value of a value-less op is not empty")
	case vkW2:
		vndAssert(r.Uint16() == uint16(o.val), what+": 2-byte value differs")
	case vkW4:
		vndAssert(r.Uint32() == uint32(o.val), what+": 4-byte value differs")
	case vkW8:
		vndAssert(r.Uint64() == o.val, what+": 8-byte value differs")
	case vkBytes:
		got := r.Bytes()
		vndAssert(len(got) == len(o.str), what+": length of variable-size value differs")
		for i := range o.str {
			vndAssert(got[i] == o.str[i], what+": byte of variable-size value differs")
		}
	}
}

// VerifC05RoundTrip: K arbitrary operations (any kind, any 32-bit offsets in any order) written to
// a Buffer read back as the identical sequence, and Range over an arbitrary block yields exactly
// that block's operations in write order.
func VerifC05RoundTrip() {
	K := vndParam("K")
	maxLen := vndParam("maxLen")
	b := NewBuffer(vndParam("cap"))
	var ops [4]vOp
	for i := 0; i < K; i++ {
		if vndParam("kset") == 3 {
			ops[i] = vWriteOp3(b, maxLen)
		} else {
			ops[i] = vWriteOp(b, maxLen)
		}
		if i > 0 {
			d := int32(ops[i].off) - int32(ops[i-1].off)
			vndCover("delta-next", d == 1)
			vndCover("delta-same", d == 0)
			vndCover("varint1", d > 1 && d < 0x80)
			vndCover("varint2", d >= 0x80 && d < 0x4000)
			vndCover("varint3", d >= 0x4000 && d < 0x200000)
			vndCover("varint4", d >= 0x200000 && d < 0x10000000)
			vndCover("varint5", d >= 0x10000000)
			vndCover("delta-negative", d < 0)
			vndCover("block-switch", ops[i].off>>14 != ops[i-1].off>>14)
			vndCover("back-to-block0", ops[i].off>>14 == 0 && ops[i-1].off>>14 != 0)
			vndCover("offset-msb", ops[i].off >= 1<<31)
		}
	}

	// sequential read
	r := NewReader()
	r.Seek(b)
	for i := 0; i < K; i++ {
		vndAssert(r.Next(), "Next: operation missing")
		vCheckOp(r, &ops[i], "Next")
		vndObserve("off", uint64(r.Index()))
		vndObserve("type", uint64(r.Type))
	}
	vndAssert(!r.Next(), "Next: more operations than written")

	// rewind reads the same again
	r.Rewind()
	for i := 0; i < K; i++ {
		vndAssert(r.Next(), "Rewind: operation missing")
		vCheckOp(r, &ops[i], "Rewind")
	}
	vndAssert(!r.Next(), "Rewind: more operations than written")

	// block-wise read of an arbitrary block
	c := Chunk(vndU32("chunk"))
	idx := 0
	r2 := NewReader()
	r2.Range(b, c, func(r *Reader) {
		for r.Next() {
			for idx < K && Chunk(ops[idx].off>>chunkShift) != c {
				idx++
			}
			vndAssert(idx < K, "Range: more operations than written for the block")
			vCheckOp(r, &ops[idx], "Range")
			idx++
		}
	})
	for idx < K && Chunk(ops[idx].off>>chunkShift) != c {
		idx++
	}
	vndAssert(idx == K, "Range: an operation of the block is missing")
	vndObserve("rangeidx", uint64(idx))
}

// VerifC05Typed: every typed Put API and every typed accessor agree, bit for bit, for one
// operation at an arbitrary offset after an arbitrary previous offset.
func VerifC05Typed() {
	b := NewBuffer(32)
	prev := vndU32("prev")
	b.PutOperation(Insert, prev)
	op := OpType(vndU8("op") & 7)
	vndAssume(op <= Skip)
	off := vndU32("off")
	v := vndU64("v")
	api := vndChoice("api", 16)
	switch api {
	case 0:
		b.PutUint64(op, off, v)
	case 1:
		b.PutUint32(op, off, uint32(v))
	case 2:
		b.PutUint16(op, off, uint16(v))
	case 3:
		b.PutUint(op, off, uint(v))
	case 4:
		b.PutInt64(op, off, int64(v))
	case 5:
		b.PutInt32(op, off, int32(v))
	case 6:
		b.PutInt16(op, off, int16(v))
	case 7:
		b.PutInt(op, off, int(v))
	case 8:
		b.PutFloat64(op, off, f64frombits(v))
	case 9:
		b.PutFloat32(op, off, f32frombits(uint32(v)))
	case 10:
		b.PutNumber(op, off, f64frombits(v))
	case 11:
		b.PutBool(off, v&1 == 1)
	case 12:
		_ = b.PutAny(op, off, v)
	case 13:
		_ = b.PutAny(op, off, int16(v))
	case 14:
		_ = b.PutAny(op, off, f32frombits(uint32(v)))
	case 15:
		_ = b.PutAny(op, off, v&1 == 1)
	}
	r := NewReader()
	r.Seek(b)
	vndAssert(r.Next() && r.Type == Insert && r.Index() == prev, "first op")
	vndAssert(r.Next(), "typed op missing")
	vndAssert(r.Index() == off, "typed op offset")
	if api == 11 || api == 15 {
		vndAssert(r.Bool() == (v&1 == 1), "bool value")
		vndAssert(r.IsDelete() == (v&1 == 0), "bool false is the delete code")
	} else {
		vndAssert(r.Type == op, "typed op type")
		vndAssert(r.IsUpsert() == (op == Put), "IsUpsert")
		vndAssert(r.IsDelete() == (op == Delete), "IsDelete")
	}
	switch api {
	case 0, 3, 12:
		vndAssert(r.Uint64() == v, "Uint64")
		vndAssert(r.Uint() == uint(v), "Uint of 8 bytes")
	case 4, 7:
		vndAssert(r.Int64() == int64(v), "Int64")
		vndAssert(r.Int() == int(v), "Int of 8 bytes")
	case 1:
		vndAssert(r.Uint32() == uint32(v), "Uint32")
		vndAssert(r.Uint() == uint(uint32(v)), "Uint of 4 bytes")
	case 5:
		vndAssert(r.Int32() == int32(v), "Int32")
	case 2:
		vndAssert(r.Uint16() == uint16(v), "Uint16")
		vndAssert(r.Uint() == uint(uint16(v)), "Uint of 2 bytes")
	case 6, 13:
		vndAssert(r.Int16() == int16(v), "Int16")
	case 8, 10:
		vndAssert(f64bits(r.Float64()) == v, "Float64 bits")
		vndAssert(f64bits(r.Number()) == v, "Number bits")
	case 9, 14:
		vndAssert(f32bits(r.Float32()) == uint32(v), "Float32 bits")
	}
	vndAssert(!r.Next(), "extra op")
	vndObserve("api", uint64(api))
	vndObserve("off", uint64(r.Index()))
}
