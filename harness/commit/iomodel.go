//go:build verif

package commit

import (
	"errors"
	"io"
	"os"

	"github.com/klauspost/compress/s2"
)

// Models of the I/O environment, used ONLY under the symbolic executor in place of the named
// functions (natively the real s2 / os code runs; the translator validation compares the two).
//
// s2: length-prefixed uncompressed frames, one frame per Flush, no read-ahead across frames, write
// errors surface at Flush and are sticky; a cut inside a frame reads as io.ErrUnexpectedEOF, a cut
// at a frame boundary as io.EOF. Compression, checksums and corruption are outside the model.

type vS2W struct {
	dst     io.Writer
	pending []byte
	err     error
}

type vS2R struct {
	src   io.Reader
	frame []byte
	pos   int
	err   error
}

var (
	vS2Writers = map[*s2.Writer]*vS2W{}
	vS2Readers = map[*s2.Reader]*vS2R{}
)

func VerifS2NewWriter(w io.Writer, opts ...s2.WriterOption) *s2.Writer {
	h := new(s2.Writer)
	vS2Writers[h] = &vS2W{dst: w}
	return h
}

// VS2Through makes the s2 model emit a frame per Write (what the real writer does whenever a
// block fills up): write errors then surface in the middle of an encoding, not only at Flush.
var VS2Through bool

func VerifS2Write(w *s2.Writer, p []byte) (int, error) {
	s := vS2Writers[w]
	if s.err != nil {
		return 0, s.err
	}
	s.pending = append(s.pending, p...)
	if VS2Through {
		if err := VerifS2Flush(w); err != nil {
			return 0, err
		}
	}
	return len(p), nil
}

func VerifS2Flush(w *s2.Writer) error {
	s := vS2Writers[w]
	if s.err != nil {
		return s.err
	}
	if len(s.pending) == 0 {
		return nil
	}
	n := len(s.pending)
	frame := make([]byte, 0, n+2)
	frame = append(frame, byte(n>>8), byte(n))
	frame = append(frame, s.pending...)
	s.pending = s.pending[:0]
	m, err := s.dst.Write(frame)
	if err == nil && m != len(frame) {
		err = io.ErrShortWrite
	}
	s.err = err
	return err
}

func VerifS2Close(w *s2.Writer) error { return VerifS2Flush(w) }

func VerifS2NewReader(r io.Reader, opts ...s2.ReaderOption) *s2.Reader {
	h := new(s2.Reader)
	vS2Readers[h] = &vS2R{src: r}
	return h
}

// fill loads the next frame; io.EOF only at a frame boundary.
func (s *vS2R) fill() error {
	if s.err != nil {
		return s.err
	}
	var hdr [2]byte
	n, err := io.ReadFull(s.src, hdr[:])
	if err != nil {
		if n == 0 && err == io.EOF {
			s.err = io.EOF
		} else {
			s.err = io.ErrUnexpectedEOF
		}
		return s.err
	}
	size := int(hdr[0])<<8 | int(hdr[1])
	s.frame = make([]byte, size)
	s.pos = 0
	if _, err := io.ReadFull(s.src, s.frame); err != nil {
		s.err = io.ErrUnexpectedEOF
		s.frame = nil
		return s.err
	}
	return nil
}

func VerifS2Read(r *s2.Reader, p []byte) (int, error) {
	s := vS2Readers[r]
	if len(p) == 0 {
		return 0, nil
	}
	for s.pos >= len(s.frame) {
		if err := s.fill(); err != nil {
			return 0, err
		}
	}
	n := copy(p, s.frame[s.pos:])
	s.pos += n
	return n, nil
}

func VerifS2ReadByte(r *s2.Reader) (byte, error) {
	s := vS2Readers[r]
	for s.pos >= len(s.frame) {
		if err := s.fill(); err != nil {
			return 0, err
		}
	}
	c := s.frame[s.pos]
	s.pos++
	return c, nil
}

// ---------------------------------------------------------------------------------------
// files: an in-memory table with "open" and "linked" flags

type VFile struct {
	Name   string
	Data   []byte
	pos    int
	Open   bool
	Linked bool
}

var (
	VFiles    []*VFile
	vFileOf   = map[*os.File]*VFile{}
	vTempSeq  int
	VFailTemp bool // CreateTemp fails
)

var errVFile = errors.New("verif: file error")

func VerifOsCreateTemp(dir, pattern string) (*os.File, error) {
	if VFailTemp {
		return nil, errVFile
	}
	vTempSeq++
	name := "/tmp/column_" + string(rune('a'+vTempSeq)) + ".log"
	f := &VFile{Name: name, Open: true, Linked: true}
	VFiles = append(VFiles, f)
	h := new(os.File)
	vFileOf[h] = f
	return h, nil
}

func VerifFileName(f *os.File) string { return vFileOf[f].Name }

func VerifFileWrite(f *os.File, p []byte) (int, error) {
	s := vFileOf[f]
	if !s.Open {
		return 0, os.ErrClosed
	}
	// write at the current position (append in all uses here)
	if s.pos < len(s.Data) {
		n := copy(s.Data[s.pos:], p)
		s.Data = append(s.Data, p[n:]...)
	} else {
		s.Data = append(s.Data, p...)
	}
	s.pos += len(p)
	return len(p), nil
}

func VerifFileRead(f *os.File, p []byte) (int, error) {
	s := vFileOf[f]
	if !s.Open {
		return 0, os.ErrClosed
	}
	if s.pos >= len(s.Data) {
		return 0, io.EOF
	}
	n := copy(p, s.Data[s.pos:])
	s.pos += n
	return n, nil
}

func VerifFileSeek(f *os.File, offset int64, whence int) (int64, error) {
	s := vFileOf[f]
	if !s.Open {
		return 0, os.ErrClosed
	}
	switch whence {
	case io.SeekStart:
		s.pos = int(offset)
	case io.SeekCurrent:
		s.pos += int(offset)
	case io.SeekEnd:
		s.pos = len(s.Data) + int(offset)
	}
	return int64(s.pos), nil
}

func VerifFileClose(f *os.File) error {
	s := vFileOf[f]
	if !s.Open {
		return os.ErrClosed
	}
	s.Open = false
	return nil
}

func VerifOsRemove(name string) error {
	for _, f := range VFiles {
		if f.Name == name && f.Linked {
			f.Linked = false
			return nil
		}
	}
	return os.ErrNotExist
}

// VerifIoCopy has io.Copy's contract (without the ReaderFrom / WriterTo shortcuts).
func VerifIoCopy(dst io.Writer, src io.Reader) (written int64, err error) {
	VInCopy = true
	defer func() { VInCopy = false }()
	buf := make([]byte, 64)
	for {
		nr, er := src.Read(buf)
		if nr > 0 {
			nw, ew := dst.Write(buf[0:nr])
			if nw < 0 || nr < nw {
				nw = 0
				if ew == nil {
					ew = errors.New("invalid write result")
				}
			}
			written += int64(nw)
			if ew != nil {
				err = ew
				break
			}
			if nr != nw {
				err = io.ErrShortWrite
				break
			}
		}
		if er != nil {
			if er != io.EOF {
				err = er
			}
			break
		}
	}
	return written, err
}

// VerifLeaks counts what the file model still holds: open descriptors and linked temp files.
func VerifLeaks() (open, linked int) {
	for _, f := range VFiles {
		if f.Open {
			open++
		}
		if f.Linked {
			linked++
		}
	}
	return
}
