//go:build verif

package commit

// vndInstallHook: the commit package has no yield points.
func vndInstallHook() {}

var _ = vndHookPoint
