//go:build verif

package commit

import (
	"errors"
	"io"
	"runtime"
	"strings"
)

func init() {
	vndRegister("VerifC05BufferCodec", VerifC05BufferCodec)
	vndRegister("VerifC05CommitCodec", VerifC05CommitCodec)
	vndRegister("VerifC05Swap", VerifC05Swap)
	vndRegister("VerifC05SwapDecoded", VerifC05SwapDecoded)
}

// VBuf is an in-memory io.Writer / io.Reader / io.ByteReader used by the harnesses, with fault
// injection for writes and truncation for reads.
type VBuf struct {
	Data []byte
	rpos int
	// writes: with Inject, the FailAt-th write call of phase FailPhase fails (phase 0: everything
	// written through the snapshot's own encoder, phase 1: the raw copy of the recorded log), and
	// every later write too unless FailOnce. Phases make a fault position meaningful both for the
	// s2 model and for the real s2, whose numbers of write calls differ.
	Inject       bool
	FailPhase    int
	FailAt       int
	FailOnce     bool
	Failed       bool
	Writes       int
	phaseWrites  [2]int
	tripped      bool
	OnFirstWrite func()
	// reads: with HasCut only the first Cut bytes exist (a file truncated by a crash)
	HasCut bool
	Cut    int
}

var ErrVBuf = errors.New("verif: destination write failed")

// VInCopy is set by the io.Copy model while it runs (symbolic executor only).
var VInCopy bool

// vInCopy tells whether the current Write comes from the raw copy of the recorded log.
func vInCopy() bool {
	if vndSymbolic() {
		return VInCopy
	}
	var pcs [32]uintptr
	n := runtime.Callers(2, pcs[:])
	frames := runtime.CallersFrames(pcs[:n])
	for {
		f, more := frames.Next()
		if strings.HasPrefix(f.Function, "io.Copy") || strings.HasPrefix(f.Function, "io.copyBuffer") || strings.Contains(f.Function, "commit.(*Log).Copy") {
			return true
		}
		if !more {
			return false
		}
	}
}

func (b *VBuf) Write(p []byte) (int, error) {
	i := b.Writes
	b.Writes++
	if i == 0 && b.OnFirstWrite != nil {
		b.OnFirstWrite()
	}
	if b.Inject {
		ph := 0
		if vInCopy() {
			ph = 1
		}
		j := b.phaseWrites[ph]
		b.phaseWrites[ph]++
		hit := ph == b.FailPhase && j == b.FailAt
		if hit || (b.tripped && !b.FailOnce) {
			b.tripped = true
			b.Failed = true
			return 0, ErrVBuf
		}
	}
	b.Data = append(b.Data, p...)
	return len(p), nil
}

func (b *VBuf) size() int {
	if b.HasCut && b.Cut < len(b.Data) {
		return b.Cut
	}
	return len(b.Data)
}

func (b *VBuf) Read(p []byte) (int, error) {
	if b.rpos >= b.size() {
		return 0, io.EOF
	}
	n := copy(p, b.Data[b.rpos:b.size()])
	b.rpos += n
	return n, nil
}

func (b *VBuf) ReadByte() (byte, error) {
	if b.rpos >= b.size() {
		return 0, io.EOF
	}
	c := b.Data[b.rpos]
	b.rpos++
	return c, nil
}

// vCheckSeq asserts that reading buf sequentially yields exactly ops[0:K].
func vCheckSeq(buf *Buffer, ops *[4]vOp, K int, what string) {
	r := NewReader()
	r.Seek(buf)
	for i := 0; i < K; i++ {
		vndAssert(r.Next(), what+": operation missing")
		vCheckOp(r, &ops[i], what)
	}
	vndAssert(!r.Next(), what+": more operations than written")
}

// vCheckBlock asserts that Range(buf, c) yields exactly the operations of block c, in order.
func vCheckBlock(buf *Buffer, c Chunk, ops *[4]vOp, K int, what string) {
	idx := 0
	r := NewReader()
	r.Range(buf, c, func(r *Reader) {
		for r.Next() {
			for idx < K && Chunk(ops[idx].off>>chunkShift) != c {
				idx++
			}
			vndAssert(idx < K, what+": more operations than written for the block")
			vCheckOp(r, &ops[idx], what)
			idx++
		}
	})
	for idx < K && Chunk(ops[idx].off>>chunkShift) != c {
		idx++
	}
	vndAssert(idx == K, what+": an operation of the block is missing")
}

// VerifC05BufferCodec: Buffer.WriteTo followed by Buffer.ReadFrom preserves the operation sequence
// and the block structure.
func VerifC05BufferCodec() {
	K := vndParam("K")
	b := NewBuffer(8)
	b.Reset("col")
	var ops [4]vOp
	for i := 0; i < K; i++ {
		ops[i] = vWriteOpOf(b, 1, true)
	}
	w := &VBuf{}
	n, err := b.WriteTo(w)
	vndAssert(err == nil, "WriteTo failed")
	vndAssert(n == int64(len(w.Data)), "WriteTo: byte count differs from what was written")
	out := NewBuffer(0)
	m, err := out.ReadFrom(w)
	vndAssert(err == nil, "ReadFrom failed")
	vndAssert(m == n, "ReadFrom consumed a different number of bytes")
	vndAssert(out.Column == "col", "column name lost")
	vCheckSeq(out, &ops, K, "decoded")
	c := Chunk(vndU32("chunk"))
	vCheckBlock(out, c, &ops, K, "decoded Range")
	// the decoded buffer continues the delta chain like the original: one more op after decoding
	if vndParam("extra") == 1 {
		ops[K] = vWriteOpOf(out, 0, true)
		vCheckSeq(out, &ops, K+1, "decoded+1")
	}
	vndObserve("bytes", uint64(n))
}

// VerifC05CommitCodec: Commit.WriteTo / ReadFrom carry exactly the operations of the commit's
// block, for buffers that interleave several blocks.
func VerifC05CommitCodec() {
	K := vndParam("K")
	b := NewBuffer(8)
	b.Reset("col")
	var ops [4]vOp
	for i := 0; i < K; i++ {
		ops[i] = vWriteOpOf(b, 1, true)
	}
	c := Chunk(vndU32("chunk") & 0x3ffff) // blocks of 32-bit offsets
	id := vndU64("id")
	if K > 0 {
		id &= 0x3fff // all 10 varint lengths of the id are covered by the K=0 instance
	}
	src := Commit{ID: id, Chunk: c, Updates: []*Buffer{b}}
	w := &VBuf{}
	n, err := src.WriteTo(w)
	vndAssert(err == nil, "Commit.WriteTo failed")
	vndAssert(n == int64(len(w.Data)), "Commit.WriteTo: byte count")
	var dst Commit
	m, err := dst.ReadFrom(w)
	vndAssert(err == nil, "Commit.ReadFrom failed")
	vndAssert(m == n, "Commit.ReadFrom consumed a different number of bytes")
	vndAssert(dst.ID == id, "commit id differs")
	vndAssert(dst.Chunk == c, "commit block differs")
	vndAssert(len(dst.Updates) == 1, "number of update buffers differs")
	vndAssert(dst.Updates[0].Column == "col", "column name differs")
	vCheckBlock(dst.Updates[0], c, &ops, K, "decoded commit")
	// the original is unchanged by serialization
	vCheckSeq(b, &ops, K, "original after WriteTo")
	// a clone carries the same operations and does not alias the original
	cl := src.Clone()
	if !b.IsEmpty() {
		vndAssert(len(cl.Updates) == 1, "clone lost a buffer")
		vCheckSeq(cl.Updates[0], &ops, K, "clone")
		b.buffer[0] ^= 0xff
		vCheckSeq(cl.Updates[0], &ops, K, "clone after the original was modified")
	}
	vndObserve("bytes", uint64(n))
}

// vSwapCheck performs a first pass over block c of b that replaces every merge by a symbolic
// merged result (as a column's Apply does) and then asserts that a second, whole-buffer reader sees
// for every offset the same sequence of operations with those merges turned into puts. ops[0:K]
// are exactly the operations b holds, in order.
func vSwapCheck(b *Buffer, c Chunk, ops *[4]vOp, K int, decoded bool) {
	var exp [4]vOp
	for i := 0; i < K; i++ {
		exp[i] = ops[i]
	}
	idx := 0
	reorder := false
	grew := false
	r := NewReader()
	r.Range(b, c, func(r *Reader) {
		for r.Next() {
			for idx < K && Chunk(ops[idx].off>>chunkShift) != c {
				idx++
			}
			vndAssert(idx < K, "first pass: more operations than written")
			if r.Type == Merge {
				o := &exp[idx]
				switch o.kind {
				case vkW2:
					v := vndU16("r16")
					r.SwapUint16(v)
					o.val, o.op = uint64(v), Put
				case vkW4:
					v := vndU32("r32")
					r.SwapUint32(v)
					o.val, o.op = uint64(v), Put
				case vkW8:
					v := vndU64("r64")
					r.SwapUint64(v)
					o.val, o.op = v, Put
				case vkBytes:
					n := vndChoice("rlen", 3)
					v := vndBytes("rs", n)
					if n != len(o.str) {
						grew = true
						// KF-merge-reorder: the result is appended at the end of the buffer; any later
						// operation of this buffer on the same offset now precedes it
						for j := idx + 1; j < K; j++ {
							if ops[j].off == o.off {
								reorder = true
							}
						}
					}
					r.SwapBytes(v)
					o.str, o.op = v, Put
				}
			}
			idx++
		}
	})
	vndKnown("KF-merge-reorder", reorder)
	// KF-decoded-swap-seek: Commit.ReadFrom does not restore the buffer's last offset, so a Put
	// appended by SwapBytes to a DECODED buffer is delta-encoded from 0: block-wise readers (which
	// restart at the block header) are right, a sequential Seek/Next reader sees a wrong offset
	seq := vndChoice("secondpass", 2) == 0
	vndKnown("KF-decoded-swap-seek", decoded && grew && seq)

	// second pass: over the whole buffer sequentially, or block-wise like every later consumer of
	// a commit (index pass, trigger pass, recorder, logger)
	var got [8]vOp
	n := 0
	collect := func(r2 *Reader) {
		for r2.Next() {
			if r2.Type == Skip {
				continue
			}
			vndAssert(n < K, "second pass: more operations than written")
			got[n] = vOp{op: r2.Type, off: r2.Index(), str: r2.Bytes()}
			switch len(got[n].str) {
			case 2:
				got[n].val = uint64(r2.Uint16())
			case 4:
				got[n].val = uint64(r2.Uint32())
			case 8:
				got[n].val = r2.Uint64()
			}
			n++
		}
	}
	r2 := NewReader()
	if seq {
		r2.Seek(b)
		collect(r2)
	} else {
		// all blocks that occur, in order of first occurrence
		var seen [4]Chunk
		ns := 0
		for i := 0; i < K; i++ {
			ci := Chunk(ops[i].off >> chunkShift)
			dup := false
			for j := 0; j < ns; j++ {
				if seen[j] == ci {
					dup = true
				}
			}
			if !dup {
				seen[ns] = ci
				ns++
				r2.Range(b, ci, collect)
			}
		}
	}
	vndAssert(n == K, "second pass: operation count differs")

	// per offset, got must equal exp in order
	var used [8]bool
	for i := 0; i < K; i++ {
		j := 0
		for j < n && (used[j] || got[j].off != exp[i].off) {
			j++
		}
		vndAssert(j < n, "second pass: an operation is missing for its offset")
		used[j] = true
		vndAssert(got[j].op == exp[i].op, "second pass: operation type differs")
		switch exp[i].kind {
		case vkOp:
			vndAssert(len(got[j].str) == 0, "second pass: value-less op has a value")
		case vkW2:
			vndAssert(len(got[j].str) == 2 && got[j].val == exp[i].val&0xffff, "second pass: 2-byte value differs")
		case vkW4:
			vndAssert(len(got[j].str) == 4 && got[j].val == exp[i].val&0xffffffff, "second pass: 4-byte value differs")
		case vkW8:
			vndAssert(len(got[j].str) == 8 && got[j].val == exp[i].val, "second pass: 8-byte value differs")
		case vkBytes:
			vndAssert(len(got[j].str) == len(exp[i].str), "second pass: variable-size length differs")
			for k := range exp[i].str {
				vndAssert(got[j].str[k] == exp[i].str[k], "second pass: variable-size byte differs")
			}
		}
	}
	vndObserve("n", uint64(n))
}

// VerifC05Swap: after a first reader replaced merge deltas of one block by merged results, a
// later reader sees, for every offset, the same sequence of operations with each such merge
// turned into a put of the result.
func VerifC05Swap() {
	K := vndParam("K")
	b := NewBuffer(8)
	var ops [4]vOp
	for i := 0; i < K; i++ {
		ops[i] = vWriteOp(b, 1)
		vndAssume(ops[i].op != Skip)
	}
	c := Chunk(vndU32("chunk"))
	vSwapCheck(b, c, &ops, K, false)
}

// VerifC05SwapDecoded: the same for a buffer that went through Commit.WriteTo / ReadFrom (what a
// replica or a restored log hands to the columns).
func VerifC05SwapDecoded() {
	K := vndParam("K")
	b := NewBuffer(8)
	b.Reset("col")
	c := Chunk(vndParam("block"))
	var ops [4]vOp
	for i := 0; i < K; i++ {
		ops[i] = vWriteOpOf(b, 1, true)
		vndAssume(ops[i].op != Skip)
		vndAssume(Chunk(ops[i].off>>chunkShift) == c)
	}
	src := Commit{ID: 7, Chunk: c, Updates: []*Buffer{b}}
	w := &VBuf{}
	_, err := src.WriteTo(w)
	vndAssert(err == nil, "Commit.WriteTo failed")
	var dst Commit
	_, err = dst.ReadFrom(w)
	vndAssert(err == nil && len(dst.Updates) == 1, "Commit.ReadFrom failed")
	vSwapCheck(dst.Updates[0], c, &ops, K, true)
}
